#!/bin/sh
# setup_cmd: offline; parses every specification module and warms the Go build cache.
set -e
cd "$(dirname "$0")"
export GOFLAGS=-mod=mod GOPROXY=off GOSUMDB=off GOTOOLCHAIN=local
W=.work/setup-$$
mkdir -p "$W"
cp -r spec "$W/spec"
( cd "$W/spec" && for f in *.tla; do
    java -cp /opt/veriftools/tla/tla2tools.jar:/opt/veriftools/tla/CommunityModules-deps.jar tla2sany.SANY "$f" > sany.out 2>&1 || { cat sany.out; echo "SANY failed on $f"; exit 1; }
    if grep -q "Semantic errors\|Parse Error\|\*\*\* Errors" sany.out; then cat sany.out; echo "SANY failed on $f"; exit 1; fi
  done )
cp -r harness "$W/h"
REPO=${VERIF_REPO:-/repo}
printf 'module verifharness\n\ngo 1.22\n\nrequire github.com/aldas/go-modbus-client v0.0.0\n\nreplace github.com/aldas/go-modbus-client => %s\n' "$REPO" > "$W/h/go.mod"
cp "$REPO/go.sum" "$W/h/go.sum"
( cd "$W/h" && go build -tags verif -o drive . && go build -race -tags verif -o drive-race . )
rm -rf "$W"
rmdir .work 2>/dev/null || true
echo "setup ok"
