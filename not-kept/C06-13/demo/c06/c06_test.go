package c06

import (
	"testing"

	modbus "github.com/aldas/go-modbus-client"
)

// Three clusters of registers spread over more than half of the 16-bit address
// space (0.., 30000, 60000). Every field must land in exactly one request whose
// window covers it, and fields of one server/unit that fit into one request
// (addresses 0 and 1) must not be split into separate requests.
func TestFieldsThatFitOneRequestAreNotSplit(t *testing.T) {
	addresses := []uint16{0, 30000, 60000, 1}

	b := modbus.NewRequestBuilder("tcp://127.0.0.1:5020", 1)
	for _, a := range addresses {
		b.Add(b.Uint16(a))
	}
	reqs, err := b.ReadHoldingRegistersTCP()
	if err != nil {
		t.Fatalf("unexpected error: %v", err)
	}

	seen := map[uint16]int{}
	reqOf := map[uint16]int{}
	for i, r := range reqs {
		if len(r.Fields) == 0 {
			t.Errorf("request %d is empty", i)
		}
		for _, f := range r.Fields {
			seen[f.Address]++
			reqOf[f.Address] = i
			if f.Address < r.StartAddress {
				t.Errorf("field %d lies before window start %d of request %d", f.Address, r.StartAddress, i)
			}
		}
		t.Logf("request %d: start=%d fields=%d", i, r.StartAddress, len(r.Fields))
	}
	for _, a := range addresses {
		if seen[a] != 1 {
			t.Errorf("field at %d appears in %d requests, want 1", a, seen[a])
		}
	}
	if reqOf[0] != reqOf[1] {
		t.Errorf("fields at 0 and 1 (span 2 <= 125) were split into requests %d and %d", reqOf[0], reqOf[1])
	}
	if len(reqs) != 3 {
		t.Errorf("got %d requests, want 3 (one per cluster)", len(reqs))
	}
}

// Same for coils (limit 2000) with the RTU flavour.
func TestCoilsThatFitOneRequestAreNotSplit(t *testing.T) {
	addresses := []uint16{100, 25000, 50000, 150}

	b := modbus.NewRequestBuilder("rtu:///dev/ttyS0", 7)
	for _, a := range addresses {
		b.Add(b.Coil(a))
	}
	reqs, err := b.ReadCoilsRTU()
	if err != nil {
		t.Fatalf("unexpected error: %v", err)
	}
	reqOf := map[uint16]int{}
	for i, r := range reqs {
		for _, f := range r.Fields {
			reqOf[f.Address] = i
		}
		t.Logf("request %d: start=%d fields=%d", i, r.StartAddress, len(r.Fields))
	}
	if reqOf[100] != reqOf[150] {
		t.Errorf("coils at 100 and 150 (span 51 <= 2000) were split into requests %d and %d", reqOf[100], reqOf[150])
	}
	if len(reqs) != 3 {
		t.Errorf("got %d requests, want 3 (one per cluster)", len(reqs))
	}
}
