package main

import (
	"encoding/binary"
	"encoding/json"
	"fmt"
	"math"
	"runtime"
	"sync"
	"time"

	modbus "github.com/aldas/go-modbus-client"
	"github.com/aldas/go-modbus-client/packet"
)

type regCall struct {
	Acc   string `json:"acc"`
	Addr  int    `json:"addr"`
	Order int    `json:"order"`
	Len   int    `json:"len"`
	Bit   int    `json:"bit"`
	High  int    `json:"high"`
}

type regCase struct {
	Op      string    `json:"op"`
	Start   int       `json:"start"`
	Payload []int     `json:"payload"`
	Def     int       `json:"def"`
	Calls   []regCall `json:"calls"`
	Fresh   bool      `json:"fresh"`
	From    int       `json:"from"`
	To      int       `json:"to"`
	Rounds  [][]int   `json:"rounds"` // extract: index lists into Calls
}

const sentinel = 0xEE

// window places the payload inside a larger buffer whose spare capacity holds sentinel bytes
// (in the real client Data aliases the receive buffer), so an over-read shows up as a wrong value.
func window(payload []int) []byte {
	buf := make([]byte, len(payload)+64)
	for i := range buf {
		buf[i] = sentinel
	}
	copy(buf, bytesOf(payload))
	return buf[:len(payload)]
}

func valueBytes(v any) []int {
	switch x := v.(type) {
	case bool:
		return []int{b2i(x)}
	case uint8:
		return []int{int(x)}
	case int8:
		return []int{int(uint8(x))}
	case uint16:
		b := make([]byte, 2)
		binary.BigEndian.PutUint16(b, x)
		return ints(b)
	case int16:
		b := make([]byte, 2)
		binary.BigEndian.PutUint16(b, uint16(x))
		return ints(b)
	case uint32:
		b := make([]byte, 4)
		binary.BigEndian.PutUint32(b, x)
		return ints(b)
	case int32:
		b := make([]byte, 4)
		binary.BigEndian.PutUint32(b, uint32(x))
		return ints(b)
	case float32:
		b := make([]byte, 4)
		binary.BigEndian.PutUint32(b, math.Float32bits(x))
		return ints(b)
	case uint64:
		b := make([]byte, 8)
		binary.BigEndian.PutUint64(b, x)
		return ints(b)
	case int64:
		b := make([]byte, 8)
		binary.BigEndian.PutUint64(b, uint64(x))
		return ints(b)
	case float64:
		b := make([]byte, 8)
		binary.BigEndian.PutUint64(b, math.Float64bits(x))
		return ints(b)
	case string:
		r := []int{}
		for _, c := range x {
			r = append(r, int(c))
		}
		return r
	case []byte:
		return ints(x)
	case nil:
		return []int{}
	}
	return []int{-1}
}

func callAcc(r *packet.Registers, c regCall) (v any, err error) {
	a, o := uint16(c.Addr), packet.ByteOrder(c.Order)
	switch c.Acc {
	case "Bit":
		return r.Bit(a, uint8(c.Bit))
	case "Byte":
		return r.Byte(a, c.High != 0)
	case "Uint8":
		return r.Uint8(a, c.High != 0)
	case "Int8":
		return r.Int8(a, c.High != 0)
	case "Uint16":
		return r.Uint16(a)
	case "Int16":
		return r.Int16(a)
	case "Register":
		return r.Register(a)
	case "Uint32":
		return r.Uint32(a)
	case "Uint32WithByteOrder":
		return r.Uint32WithByteOrder(a, o)
	case "Int32":
		return r.Int32(a)
	case "Int32WithByteOrder":
		return r.Int32WithByteOrder(a, o)
	case "Float32":
		return r.Float32(a)
	case "Float32WithByteOrder":
		return r.Float32WithByteOrder(a, o)
	case "DoubleRegister":
		return r.DoubleRegister(a, o)
	case "Uint64":
		return r.Uint64(a)
	case "Uint64WithByteOrder":
		return r.Uint64WithByteOrder(a, o)
	case "Int64":
		return r.Int64(a)
	case "Int64WithByteOrder":
		return r.Int64WithByteOrder(a, o)
	case "Float64":
		return r.Float64(a)
	case "Float64WithByteOrder":
		return r.Float64WithByteOrder(a, o)
	case "QuadRegister":
		return r.QuadRegister(a, o)
	case "String":
		return r.String(a, uint8(c.Len))
	case "StringWithByteOrder":
		return r.StringWithByteOrder(a, uint8(c.Len), o)
	}
	return nil, fmt.Errorf("harness: unknown accessor %s", c.Acc)
}

func doRegCall(r *packet.Registers, data []byte, c regCall) Ev {
	e := Ev{"ev": "call", "acc": c.Acc, "addr": c.Addr, "order": c.Order, "len": c.Len, "bit": c.Bit, "high": c.High,
		"outcome": "", "value": []int{}, "after": []int{}}
	func() {
		defer func() {
			if p := recover(); p != nil {
				e["outcome"] = "panic"
			}
		}()
		v, err := callAcc(r, c)
		if err != nil {
			e["outcome"] = "err"
		} else {
			e["outcome"] = "ok"
			e["value"] = valueBytes(v)
		}
	}()
	e["after"] = ints(data)
	return e
}

var fieldTypeOf = map[string]modbus.FieldType{
	"Bit": modbus.FieldTypeBit, "Byte": modbus.FieldTypeByte, "Uint8": modbus.FieldTypeUint8, "Int8": modbus.FieldTypeInt8,
	"Uint16": modbus.FieldTypeUint16, "Int16": modbus.FieldTypeInt16,
	"Uint32WithByteOrder": modbus.FieldTypeUint32, "Int32WithByteOrder": modbus.FieldTypeInt32,
	"Uint64WithByteOrder": modbus.FieldTypeUint64, "Int64WithByteOrder": modbus.FieldTypeInt64,
	"Float32WithByteOrder": modbus.FieldTypeFloat32, "Float64WithByteOrder": modbus.FieldTypeFloat64,
	"StringWithByteOrder": modbus.FieldTypeString,
}

func fieldOf(c regCall, i int) modbus.Field {
	return modbus.Field{Name: fmt.Sprintf("f%d", i), ServerAddress: "x:1", UnitID: 1, Address: uint16(c.Addr), Type: fieldTypeOf[c.Acc],
		Bit: uint8(c.Bit), FromHighByte: c.High != 0, Length: uint8(c.Len), ByteOrder: packet.ByteOrder(c.Order)}
}

// driveRegsPar: the "window" cases again, by 64 goroutines at once, each case on its OWN payload and Registers
// (nothing is shared by the callers): a value must still be determined by the addressed wire bytes alone.
// Every call is repeated; the first round is logged completely, later rounds only where the result differs from
// the first round (such an event is judged like any other).  A helper forces preemption at arbitrary points.
func driveRegsPar(w *writer) error {
	var cases []*regCase
	err := readCases(flagIn, func(line []byte) error {
		c := &regCase{}
		if err := json.Unmarshal(line, c); err != nil {
			return err
		}
		if c.Op == "window" {
			for _, cl := range c.Calls {
				if cl.Acc == "WithByteOrder" {
					return nil // histories with option calls need ONE Registers: not for this pass
				}
			}
			cases = append(cases, c)
		}
		return nil
	})
	if err != nil {
		return err
	}
	if flagTier != "thorough" {
		// quick tier: every third window (the detector slows this pass down by an order of magnitude)
		third := cases[:0]
		for i, c := range cases {
			if i%3 == 0 {
				third = append(third, c)
			}
		}
		cases = third
	}
	rounds := 4
	if flagTier == "thorough" {
		rounds = 12
	}
	stop := make(chan struct{})
	go func() {
		for {
			select {
			case <-stop:
				return
			default:
				runtime.GC()
				time.Sleep(200 * time.Microsecond)
			}
		}
	}()
	ch := make(chan *regCase)
	var wg sync.WaitGroup
	for g := 0; g < 64; g++ {
		wg.Add(1)
		go func() {
			defer wg.Done()
			for c := range ch {
				evs := []Ev{{"ev": "reset", "start": c.Start, "payload": c.Payload, "def": c.Def}}
				first := make([]string, len(c.Calls))
				for round := 0; round < rounds; round++ {
					for i, cl := range c.Calls {
						data := window(c.Payload)
						r, err := packet.NewRegisters(data, uint16(c.Start))
						if err != nil {
							continue
						}
						r.WithByteOrder(packet.ByteOrder(c.Def))
						e := doRegCall(r, data, cl)
						key := fmt.Sprint(e["outcome"], e["value"], e["after"])
						if round == 0 {
							first[i] = key
							evs = append(evs, e)
						} else if key != first[i] {
							evs = append(evs, e)
						}
					}
				}
				w.emitAll(evs)
			}
		}()
	}
	for _, c := range cases {
		ch <- c
	}
	close(ch)
	wg.Wait()
	close(stop)
	return nil
}

func driveRegs(w *writer) error {
	if flagMode == "par" {
		return driveRegsPar(w)
	}
	return readCases(flagIn, func(line []byte) error {
		var c regCase
		if err := json.Unmarshal(line, &c); err != nil {
			return err
		}
		switch c.Op {
		case "window":
			evs := []Ev{{"ev": "reset", "start": c.Start, "payload": c.Payload, "def": c.Def}}
			data := window(c.Payload)
			r, err := packet.NewRegisters(data, uint16(c.Start))
			if err != nil {
				return fmt.Errorf("harness: NewRegisters refused payload of %d bytes: %v", len(data), err)
			}
			r.WithByteOrder(packet.ByteOrder(c.Def))
			for _, cl := range c.Calls {
				if c.Fresh {
					data = window(c.Payload)
					r, _ = packet.NewRegisters(data, uint16(c.Start))
					r.WithByteOrder(packet.ByteOrder(c.Def))
				}
				if cl.Acc == "WithByteOrder" {
					// the option call between reads: the window's default order from here on
					r.WithByteOrder(packet.ByteOrder(cl.Order))
					evs = append(evs, Ev{"ev": "setorder", "order": cl.Order})
					continue
				}
				evs = append(evs, doRegCall(r, data, cl))
			}
			w.emitAll(evs)
		case "sweep":
			// every address From..To for each template call; refusals are logged as maximal ranges
			evs := []Ev{{"ev": "reset", "start": c.Start, "payload": c.Payload, "def": c.Def}}
			for _, tmpl := range c.Calls {
				runStart := -1
				flush := func(end int) {
					if runStart >= 0 {
						evs = append(evs, Ev{"ev": "range", "acc": tmpl.Acc, "order": tmpl.Order, "len": tmpl.Len, "bit": tmpl.Bit,
							"high": tmpl.High, "from": runStart, "to": end})
						runStart = -1
					}
				}
				for a := c.From; a <= c.To; a++ {
					cl := tmpl
					cl.Addr = a
					data := window(c.Payload)
					r, _ := packet.NewRegisters(data, uint16(c.Start))
					r.WithByteOrder(packet.ByteOrder(c.Def))
					e := doRegCall(r, data, cl)
					if e["outcome"] == "err" {
						if runStart < 0 {
							runStart = a
						}
						continue
					}
					flush(a - 1)
					evs = append(evs, e)
				}
				flush(c.To)
			}
			w.emitAll(evs)
		case "extract":
			// ExtractFields on one shared response, several rounds with different field orders
			evs := []Ev{{"ev": "reset", "start": c.Start, "payload": c.Payload, "def": 9}}
			data := window(c.Payload)
			// (a hand-built response: the redundant byte-length field is left at zero for every other case - values
			// are determined by the payload)
			bl := uint8(len(data))
			if c.Start%2 == 1 {
				bl = 0
			}
			resp := &packet.ReadHoldingRegistersResponseTCP{
				ReadHoldingRegistersResponse: packet.ReadHoldingRegistersResponse{UnitID: 1, RegisterByteLen: bl, Data: data}}
			for _, round := range c.Rounds {
				fields := modbus.Fields{}
				calls := []Ev{}
				for _, idx := range round {
					cl := c.Calls[idx]
					fields = append(fields, fieldOf(cl, idx))
					calls = append(calls, Ev{"acc": cl.Acc, "addr": cl.Addr, "order": cl.Order, "len": cl.Len, "bit": cl.Bit, "high": cl.High,
						"outcome": "", "value": []int{}, "after": []int{}})
				}
				e := Ev{"ev": "extract", "fields": calls, "outcome": "ok", "results": []Ev{}, "after": []int{}}
				func() {
					defer func() {
						if p := recover(); p != nil {
							e["outcome"] = "panic"
						}
					}()
					br := modbus.BuilderRequest{StartAddress: uint16(c.Start), Fields: fields}
					vals, _ := br.ExtractFields(resp, true)
					res := []Ev{}
					for _, fv := range vals {
						if fv.Error != nil {
							res = append(res, Ev{"outcome": "err", "value": []int{}})
						} else {
							res = append(res, Ev{"outcome": "ok", "value": valueBytes(fv.Value)})
						}
					}
					e["results"] = res
				}()
				e["after"] = ints(data)
				evs = append(evs, e)
			}
			// the same (mixed) field list extracted twice from a COIL response: the second extraction must see the
			// same request and give the same results, and the coil payload stays as it was
			if len(c.Rounds) > 0 {
				fields := modbus.Fields{}
				for _, idx := range c.Rounds[0] {
					fields = append(fields, fieldOf(c.Calls[idx], idx))
				}
				fields = append(fields, modbus.Field{Name: "coil-a", ServerAddress: "x:1", UnitID: 1, Address: uint16(c.Start) + 1, Type: modbus.FieldTypeCoil},
					modbus.Field{Name: "coil-b", ServerAddress: "x:1", UnitID: 1, Address: uint16(c.Start) + 9, Type: modbus.FieldTypeCoil})
				cdata := []byte{0xA5, 0x3C, 0x0F}
				cresp := &packet.ReadCoilsResponseTCP{ReadCoilsResponse: packet.ReadCoilsResponse{UnitID: 1, CoilsByteLength: 3, Data: cdata}}
				br := modbus.BuilderRequest{StartAddress: uint16(c.Start), Fields: fields}
				names := func() []string {
					out := []string{}
					for _, f := range br.Fields {
						out = append(out, f.Name)
					}
					return out
				}
				e := Ev{"ev": "coilrepeat", "outcome": "ok", "first": []string{}, "second": []string{}, "fieldsBefore": names(), "fieldsAfter": []string{}, "payloadAfter": []int{}}
				func() {
					defer func() {
						if p := recover(); p != nil {
							e["outcome"] = "panic"
						}
					}()
					render := func(vals []modbus.FieldValue) []string {
						out := []string{}
						for _, fv := range vals {
							out = append(out, fmt.Sprintf("%s=%v/%v", fv.Field.Name, fv.Value, fv.Error != nil))
						}
						return out
					}
					v1, _ := br.ExtractFields(cresp, true)
					e["first"] = render(v1)
					v2, _ := br.ExtractFields(cresp, true)
					e["second"] = render(v2)
				}()
				e["fieldsAfter"] = names()
				e["payloadAfter"] = ints(cdata)
				evs = append(evs, e)
			}
			w.emitAll(evs)
		default:
			return fmt.Errorf("unknown regs op %q", c.Op)
		}
		return nil
	})
}
