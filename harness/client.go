package main

import (
	"context"
	"encoding/json"
	"errors"
	"fmt"
	"io"
	"net"
	"os"
	"strings"
	"sync"
	"time"

	modbus "github.com/aldas/go-modbus-client"
	"github.com/aldas/go-modbus-client/packet"
)

type step struct {
	K string `json:"k"`
	N int    `json:"n"`
	E string `json:"e"`
}

type exchCase struct {
	Op     string      `json:"op"`
	Client string      `json:"client"`
	Req    codecCase   `json:"req"`
	Reply  []int       `json:"reply"`
	Script []step      `json:"script"`
	Fault  string      `json:"fault"`
	Hooks  int         `json:"hooks"`
	Pair   int         `json:"pair"`
	A      *exchCase   `json:"a"`
	B      *exchCase   `json:"b"`
	Seq    []*exchCase `json:"seq"`
	SeqPos int         `json:"seqpos"`
	SeqLen int         `json:"seqlen"`
	// Defaults = 1: the client is created with a zero-valued configuration (the library's default timeouts: 2 s read)
	Defaults int `json:"defaults"`
}

var errInjected = errors.New("verif: injected transport failure")

// errCallerCause is the cause the caller attaches to its cancellation; it looks like a retryable client error on purpose
var errCallerCause error = &modbus.ClientError{Err: errors.New("verif: the caller's own reason for giving up")}

func errKind(err error) string {
	switch {
	case err == nil:
		return "none"
	case errors.Is(err, os.ErrDeadlineExceeded):
		return "deadline"
	case errors.Is(err, io.EOF):
		return "eof"
	case errors.Is(err, errInjected):
		return "io"
	}
	return "other"
}

// exchLog collects the events of one exchange in the order they happen (transport calls and hook
// calls are made by the goroutine executing Do; the mutex only guards against a leaked goroutine).
type exchLog struct {
	mu  sync.Mutex
	evs []Ev
	// quiet reads beyond the first few are not logged (neither the read nor its hook call)
	lastLogged bool
	quiet      int
	suppressed int
}

func (l *exchLog) add(e Ev) {
	l.mu.Lock()
	l.evs = append(l.evs, e)
	l.mu.Unlock()
}

type scriptConn struct {
	log    *exchLog
	reply  []byte
	off    int
	script []step
	pos    int
	cancel func()
	serial bool
	fault  string
	// a network connection blocks in Read / Write until data arrives or the deadline the CALLER has set expires; with no
	// deadline it blocks until the exchange is given up (release).  The serial port has its own timeout (no deadlines).
	rdl, wdl time.Time
	release  chan struct{}
}

// waitDeadline blocks as a network connection without data does: until the deadline, or for good when none is set
func (c *scriptConn) waitDeadline(d time.Time) {
	if c.serial {
		return
	}
	if d.IsZero() {
		if c.release != nil {
			<-c.release
		}
		return
	}
	if w := time.Until(d); w > 0 {
		select {
		case <-time.After(w):
		case <-c.release:
		}
	}
}

func (c *scriptConn) Read(p []byte) (int, error) {
	l := c.log
	for c.pos < len(c.script) {
		st := &c.script[c.pos]
		switch st.K {
		case "chunk", "chunkeof", "chunkdl":
			m := st.N
			if m > len(c.reply)-c.off {
				m = len(c.reply) - c.off
			}
			if m > len(p) {
				m = len(p)
			}
			st.N -= m
			if st.N <= 0 || m == 0 {
				c.pos++
			}
			if m == 0 {
				continue
			}
			copy(p, c.reply[c.off:c.off+m])
			l.lastLogged = true
			if st.K == "chunkeof" && st.N <= 0 {
				// the transport hands over its last bytes together with the end-of-stream indication (io.Reader allows it)
				l.add(Ev{"ev": "conn.read", "bytes": ints(c.reply[c.off : c.off+m]), "n": m, "err": "eof"})
				c.off += m
				return m, io.EOF
			}
			if st.K == "chunkdl" && st.N <= 0 {
				// the transport hands over what it has when its own read timeout strikes: data together with the timeout error
				l.add(Ev{"ev": "conn.read", "bytes": ints(c.reply[c.off : c.off+m]), "n": m, "err": "deadline"})
				c.off += m
				return m, os.ErrDeadlineExceeded
			}
			l.add(Ev{"ev": "conn.read", "bytes": ints(c.reply[c.off : c.off+m]), "n": m, "err": "none"})
			c.off += m
			return m, nil
		case "empty":
			c.pos++
			var err error
			switch st.E {
			case "deadline":
				c.waitDeadline(c.rdl)
				err = os.ErrDeadlineExceeded
			case "eof":
				err = io.EOF
			}
			l.lastLogged = true
			l.add(Ev{"ev": "conn.read", "bytes": []int{}, "n": 0, "err": errKind(err)})
			return 0, err
		case "eof":
			l.lastLogged = l.quiet < 3
			l.quiet++
			if l.lastLogged {
				l.add(Ev{"ev": "conn.read", "bytes": []int{}, "n": 0, "err": "eof"})
			}
			time.Sleep(200 * time.Microsecond)
			return 0, io.EOF
		case "ioerr":
			l.lastLogged = l.quiet < 3
			l.quiet++
			if l.lastLogged {
				l.add(Ev{"ev": "conn.read", "bytes": []int{}, "n": 0, "err": "io"})
			}
			return 0, errInjected
		case "cancel":
			c.pos++
			l.add(Ev{"ev": "cancel"})
			c.cancel()
			continue
		case "pause":
			// the peer is silent for N ms before the next piece
			c.pos++
			time.Sleep(time.Duration(st.N) * time.Millisecond)
			continue
		case "wslow", "rslow":
			// (see Write) the reply begins 5/6 N ms after the request was taken
			c.pos++
			time.Sleep(time.Duration(st.N*5/6) * time.Millisecond)
			continue
		default:
			c.pos++
		}
	}
	// script exhausted: a quiet line
	l.lastLogged = l.quiet < 3
	l.quiet++
	if c.serial {
		time.Sleep(time.Millisecond)
		if l.lastLogged {
			l.add(Ev{"ev": "conn.read", "bytes": []int{}, "n": 0, "err": "none"})
		}
		return 0, nil
	}
	if c.rdl.IsZero() {
		c.waitDeadline(c.rdl) // no read deadline was set: a quiet network connection never returns
	} else {
		time.Sleep(500 * time.Microsecond)
		c.waitDeadline(c.rdl)
	}
	if l.lastLogged {
		l.add(Ev{"ev": "conn.read", "bytes": []int{}, "n": 0, "err": "deadline"})
	}
	return 0, os.ErrDeadlineExceeded
}

func (c *scriptConn) Write(b []byte) (int, error) {
	if c.fault == "writeerr" {
		c.log.add(Ev{"ev": "conn.write", "bytes": ints(b), "err": 1})
		return 0, errInjected
	}
	if c.fault == "cancelonwrite" && c.cancel != nil {
		c.log.add(Ev{"ev": "cancel"})
		c.cancel() // the caller gives up while the request is being written: before any read
	}
	if c.fault == "writestall" && !c.serial {
		// the peer does not take the bytes: the write returns when the write deadline expires
		c.log.add(Ev{"ev": "conn.write", "bytes": ints(b), "err": 1})
		c.waitDeadline(c.wdl)
		return 0, os.ErrDeadlineExceeded
	}
	if c.pos < len(c.script) && c.script[c.pos].K == "wslow" {
		time.Sleep(time.Duration(c.script[c.pos].N) * time.Millisecond) // the peer takes the request slowly
	}
	c.log.add(Ev{"ev": "conn.write", "bytes": ints(b), "err": 0})
	return len(b), nil
}
func (c *scriptConn) Close() error                       { return nil }
func (c *scriptConn) LocalAddr() net.Addr                { return &net.TCPAddr{} }
func (c *scriptConn) RemoteAddr() net.Addr               { return &net.TCPAddr{} }
func (c *scriptConn) SetDeadline(t time.Time) error      { c.rdl, c.wdl = t, t; return nil }
func (c *scriptConn) SetReadDeadline(t time.Time) error  { c.rdl = t; return nil }
func (c *scriptConn) SetWriteDeadline(t time.Time) error { c.wdl = t; return nil }

// hookRec writes to the log of the exchange currently loaded into the transport
type hookRec struct{ conn *scriptConn }

func (h *hookRec) BeforeWrite(b []byte) {
	h.conn.log.add(Ev{"ev": "hook.beforeWrite", "bytes": ints(b)})
}
func (h *hookRec) AfterEachRead(b []byte, n int, err error) {
	if !h.conn.log.lastLogged {
		return
	}
	h.conn.log.add(Ev{"ev": "hook.afterRead", "bytes": ints(b), "n": n, "err": errKind(err)})
}
func (h *hookRec) BeforeParse(b []byte) {
	h.conn.log.add(Ev{"ev": "hook.beforeParse", "bytes": ints(b)})
}

type doer interface {
	Do(ctx context.Context, req packet.Request) (packet.Response, error)
}

var flagTimeoutMs = 250

func argsEv(a *codecCase) Ev {
	return Ev{"fc": a.Fc, "unit": a.Unit, "addr": a.Addr, "qty": a.Qty, "data": orEmpty(a.Data), "coils": orEmpty(a.Coils), "waddr": a.Waddr, "tid": a.Tid}
}

// exchClient is one client instance with its scripted transport; a sequence of exchanges can run on it
type exchClient struct {
	kind      string
	conn      *scriptConn
	cl        doer
	connect   func() error
	connected bool
	hooks     bool
	dialMode  string // "": the dial function succeeds; "connerr": it returns the connection AND an error; "nilerr": a typed nil connection and an error
	// responses returned by earlier calls on this client and what they encoded to when they were returned
	kept     []packet.Response
	keptThen [][]int
}

func newExchClient(kind string, hooks bool, timeoutMs int, serialNil bool) *exchClient {
	return newExchClientW(kind, hooks, timeoutMs, timeoutMs, serialNil)
}

// newExchClientW: read and write timeout configured separately
func newExchClientW(kind string, hooks bool, timeoutMs, writeTimeoutMs int, serialNil bool) *exchClient {
	ec := &exchClient{kind: kind, hooks: hooks}
	ec.conn = &scriptConn{log: &exchLog{}, serial: kind == "serial"}
	var hk modbus.ClientHooks
	if hooks {
		hk = &hookRec{conn: ec.conn}
	}
	timeout := time.Duration(timeoutMs) * time.Millisecond
	switch kind {
	case "tcp", "rtu", "tcpgen", "gendef", "rtuparse":
		conf := modbus.ClientConfig{ReadTimeout: timeout, WriteTimeout: time.Duration(writeTimeoutMs) * time.Millisecond,
			DialContextFunc: func(ctx context.Context, address string) (net.Conn, error) {
				switch ec.dialMode {
				case "connerr":
					return ec.conn, errors.New("verif: dial failed after the connection object existed")
				case "nilerr":
					var none *scriptConn
					return none, errors.New("verif: dial failed")
				}
				return ec.conn, nil
			}}
		if hk != nil {
			conf.Hooks = hk
		}
		var nc *modbus.Client
		switch kind {
		case "tcp":
			nc = modbus.NewTCPClientWithConfig(conf)
		case "rtu":
			nc = modbus.NewRTUClientWithConfig(conf)
		case "rtuparse":
			// the RTU client with ONE of its two protocol functions supplied by the caller: a wrapper around the RTU parser
			// (logging, metrics); the exception recogniser of the read loop stays the constructor's business
			conf.ParseResponseFunc = func(data []byte) (packet.Response, error) { return packet.ParseRTUResponseWithCRC(data) }
			nc = modbus.NewRTUClientWithConfig(conf)
		case "gendef":
			// the configurable client with nothing configured but the dial function: TCP is the library's default protocol
			nc = modbus.NewClient(conf)
		default:
			// the configurable client with the TCP functions: the parser is wrapped so that "a reply is handed to
			// the parser" becomes an observable event
			conf.AsProtocolErrorFunc = packet.AsTCPErrorPacket
			conf.ParseResponseFunc = func(data []byte) (packet.Response, error) {
				ec.conn.log.add(Ev{"ev": "parse", "bytes": ints(data)})
				return packet.ParseTCPResponse(data)
			}
			nc = modbus.NewClient(conf)
		}
		ec.cl = nc
		ec.connect = func() error { return nc.Connect(context.Background(), "verif:502") }
	case "serial":
		opts := []modbus.SerialClientOptionFunc{}
		if timeout > 0 {
			opts = append(opts, modbus.WithSerialReadTimeout(timeout))
		}
		if hk != nil {
			opts = append(opts, modbus.WithSerialHooks(hk))
		}
		if serialNil {
			ec.cl = modbus.NewSerialClient(nil, opts...)
		} else {
			ec.cl = modbus.NewSerialClient(ec.conn, opts...)
			ec.connected = true
		}
		ec.connect = func() error { return nil }
	}
	return ec
}

func runExchange(c *exchCase, timeoutMs int) []Ev {
	if c.Defaults == 1 {
		ec := newExchClient(c.Client, c.Hooks == 1, 0, c.Fault == "notconnected")
		return ec.run(c, 2000) // what the library documents as its default total read timeout
	}
	if len(c.Script) > 0 && c.Script[0].K == "wslow" {
		// a peer that takes its time: the write of the request takes N ms, the reply begins 5/6 N ms after the request was
		// taken; the total READ timeout is 4/3 N ms - longer than the reply takes, shorter than write + reply together
		timeoutMs = c.Script[0].N * 4 / 3
	}
	if len(c.Script) > 0 && c.Script[0].K == "rslow" {
		// a device that takes its time: the reply begins 5/6 N ms after the request; READ timeout 4/3 N ms, WRITE timeout
		// 1/3 N ms - the two are different settings, the reply is within the one that is about replies
		ec := newExchClientW(c.Client, c.Hooks == 1, c.Script[0].N*4/3, c.Script[0].N/3, c.Fault == "notconnected")
		return ec.run(c, c.Script[0].N*4/3)
	}
	ec := newExchClient(c.Client, c.Hooks == 1, timeoutMs, c.Fault == "notconnected")
	return ec.run(c, timeoutMs)
}

// run performs one request call on this client with the case's reply / script / fault
func (ec *exchClient) run(c *exchCase, timeoutMs int) []Ev {
	lg := &exchLog{}
	a := c.Req
	a.Framing = "tcp"
	if c.Client != "tcp" && c.Client != "tcpgen" && c.Client != "gendef" {
		a.Framing = "rtu"
		a.Tid = 0
	}
	var req packet.Request
	reqBytes := []int{}
	explen := 0
	if r, err := newReq(&a); err == nil && r != nil {
		if a.Framing == "tcp" {
			setTid(r, uint16(a.Tid))
		}
		req = r
		reqBytes = ints(r.Bytes())
		explen = r.ExpectedResponseLength()
	} else {
		return []Ev{{"ev": "reset", "client": c.Client, "req": argsEv(&a), "reqBytes": reqBytes, "explen": 0, "reply": orEmpty(c.Reply),
			"fault": "harness-constructor-refused", "hooks": c.Hooks, "pair": c.Pair, "timeoutMs": timeoutMs}}
	}
	lg.add(Ev{"ev": "reset", "client": c.Client, "req": argsEv(&a), "reqBytes": reqBytes, "explen": explen, "reply": orEmpty(c.Reply),
		"script": c.Script, "fault": c.Fault, "hooks": c.Hooks, "pair": c.Pair, "timeoutMs": timeoutMs, "seqpos": c.SeqPos, "seqlen": c.SeqLen})

	// the caller's context carries a CAUSE (context.WithCancelCause / WithTimeoutCause): what a cancelled call returns is
	// still the context's error - errors.Is(err, context.Canceled / DeadlineExceeded) - whatever the cause says
	ctx, cancelCause := context.WithCancelCause(context.Background())
	cancel := func() { cancelCause(errCallerCause) }
	if c.Fault == "ctxdeadline" {
		// the caller's own deadline is shorter than the client's total read timeout
		cancel()
		var cancelT context.CancelFunc
		ctx, cancelT = context.WithTimeoutCause(context.Background(), time.Duration(timeoutMs/4)*time.Millisecond, errCallerCause)
		cancel = func() { cancelT() }
	}
	defer cancel()
	script := make([]step, len(c.Script))
	copy(script, c.Script)
	// (re)load the transport for this exchange
	conn := ec.conn
	conn.log, conn.reply, conn.off, conn.script, conn.pos, conn.cancel, conn.fault = lg, bytesOf(c.Reply), 0, script, 0, cancel, c.Fault
	conn.rdl, conn.wdl, conn.release = time.Time{}, time.Time{}, make(chan struct{})
	defer close(conn.release)
	cl := ec.cl
	if c.Fault == "nilreq" {
		req = nil
	}

	type result struct {
		resp packet.Response
		err  error
		pan  string
	}
	done := make(chan result, 1)
	t0 := time.Now()
	go func() {
		var r result
		defer func() {
			if p := recover(); p != nil {
				r.pan = fmt.Sprint(p)
			}
			done <- r
		}()
		if (c.Fault == "connectfailed" || c.Fault == "connectfailednil") && !ec.connected && ec.kind != "serial" {
			// a Connect that FAILS (the dial function reports an error): the client stays unconnected
			ec.dialMode = map[string]string{"connectfailed": "connerr", "connectfailednil": "nilerr"}[c.Fault]
			_ = ec.connect()
			ec.dialMode = ""
		} else if c.Fault != "notconnected" && !ec.connected {
			if err := ec.connect(); err != nil {
				panic(err)
			}
			ec.connected = true
		}
		if c.Fault == "precancel" {
			lg.add(Ev{"ev": "cancel"})
			cancel() // the context is already cancelled when the call is made
		}
		r.resp, r.err = cl.Do(ctx, req)
	}()
	ret := Ev{"ev": "return", "kind": "", "reenc": []int{}, "excUnit": 0, "excFc": 0, "excCode": 0, "isClientError": 0, "wrapsCause": 0,
		"tooLong": 0, "timeoutMsg": 0, "errCRC": 0, "notConnected": 0, "ms": 0, "msg": ""}
	select {
	case r := <-done:
		ret["ms"] = int(time.Since(t0).Milliseconds())
		switch {
		case r.pan != "":
			ret["kind"] = "panic"
			ret["msg"] = r.pan
		case r.err == nil:
			ret["kind"] = "ok"
			if r.resp != nil {
				ret["reenc"] = ints(r.resp.Bytes())
				ec.kept = append(ec.kept, r.resp)
				ec.keptThen = append(ec.keptThen, ints(r.resp.Bytes()))
			} else {
				ret["kind"] = "panic"
				ret["msg"] = "nil response with nil error"
			}
		default:
			err := r.err
			// the caller inspects the error: if that blows up (e.g. a nil pointer wrapped in the error interface),
			// the call has in effect panicked in the caller's hands
			unusable := ""
			func() {
				defer func() {
					if p := recover(); p != nil {
						unusable = fmt.Sprint(p)
					}
				}()
				_ = err.Error()
				var x1 *packet.ErrorResponseTCP
				var x2 *packet.ErrorResponseRTU
				if errors.As(err, &x1) {
					_ = x1.Error()
				}
				if errors.As(err, &x2) {
					_ = x2.Error()
				}
			}()
			if unusable != "" {
				ret["kind"] = "panic"
				ret["msg"] = "returned error cannot be inspected: " + unusable
				break
			}
			ret["msg"] = err.Error()
			var ce *modbus.ClientError
			if errors.As(err, &ce) {
				ret["isClientError"] = 1
			}
			if errors.Is(err, errInjected) {
				ret["wrapsCause"] = 1
			}
			if err == error(&modbus.ErrPacketTooLong) {
				ret["tooLong"] = 1
			}
			if err == error(&modbus.ErrClientNotConnected) {
				ret["notConnected"] = 1
			}
			// "the call ended by the total read timeout": by what the error says, or - should the wording change - by
			// how long a client error took (at least 90 % of the configured total timeout)
			if strings.Contains(strings.ToLower(err.Error()), "timeout") ||
				(ret["isClientError"] == 1 && timeoutMs > 0 && ret["ms"].(int)*10 >= timeoutMs*9) {
				ret["timeoutMsg"] = 1
			}
			if errors.Is(err, packet.ErrInvalidCRC) {
				ret["errCRC"] = 1
			}
			var et *packet.ErrorResponseTCP
			var er *packet.ErrorResponseRTU
			switch {
			case errors.As(err, &et):
				ret["kind"] = "exception"
				ret["excUnit"], ret["excFc"], ret["excCode"] = int(et.UnitID), int(et.Function), int(et.Code)
			case errors.As(err, &er):
				ret["kind"] = "exception"
				ret["excUnit"], ret["excFc"], ret["excCode"] = int(er.UnitID), int(er.Function), int(er.Code)
			case errors.Is(err, context.Canceled) || errors.Is(err, context.DeadlineExceeded):
				ret["kind"] = "ctxerr"
			case ret["isClientError"] == 1:
				ret["kind"] = "clienterr"
			default:
				ret["kind"] = "err"
			}
		}
	case <-time.After(10 * time.Second):
		ret["kind"] = "hang"
		ret["ms"] = 10000
	}
	// a response handed to an earlier caller must not change when the client is used again
	then, now := [][]int{}, [][]int{}
	if ret["kind"] != "hang" {
		n := len(ec.kept)
		if ret["kind"] == "ok" {
			n-- // the one just returned
		}
		for i := 0; i < n; i++ {
			func() {
				defer func() {
					if recover() != nil {
						now = append(now, []int{-1})
					}
				}()
				b := ints(ec.kept[i].Bytes())
				now = append(now, b)
			}()
			then = append(then, ec.keptThen[i])
		}
	}
	ret["keptThen"], ret["keptNow"] = then, now
	lg.mu.Lock()
	evs := append([]Ev{}, lg.evs...)
	lg.mu.Unlock()
	return append(evs, ret)
}

func driveClient(w *writer) error {
	var cases []*exchCase
	err := readCases(flagIn, func(line []byte) error {
		c := &exchCase{}
		if err := json.Unmarshal(line, c); err != nil {
			return err
		}
		cases = append(cases, c)
		return nil
	})
	if err != nil {
		return err
	}
	timeoutMs := flagTimeoutMs
	if flagMode != "" {
		fmt.Sscanf(flagMode, "timeout=%d", &timeoutMs)
	}
	workers := 64
	if strings.HasPrefix(flagMode, "solo") {
		workers = 1
		fmt.Sscanf(flagMode, "solo,timeout=%d", &timeoutMs)
	}
	ch := make(chan *exchCase)
	var wg sync.WaitGroup
	for i := 0; i < workers; i++ {
		wg.Add(1)
		go func() {
			defer wg.Done()
			for c := range ch {
				switch c.Op {
				case "exch":
					w.emitAll(runExchange(c, timeoutMs))
				case "pair":
					evs := runExchange(c.A, timeoutMs)
					evs = append(evs, runExchange(c.B, timeoutMs)...)
					w.emitAll(evs)
				case "seq":
					// a history of request calls on ONE client instance
					if len(c.Seq) == 0 {
						continue
					}
					ec := newExchClient(c.Seq[0].Client, c.Seq[0].Hooks == 1, timeoutMs, c.Seq[0].Fault == "notconnected" && c.Seq[0].Client == "serial")
					evs := []Ev{}
					for i, x := range c.Seq {
						x.SeqPos, x.SeqLen = i, len(c.Seq)
						one := ec.run(x, timeoutMs)
						evs = append(evs, one...)
						if k, _ := one[len(one)-1]["kind"].(string); k == "hang" {
							break // the client is stuck: nothing more can be learnt from this instance
						}
					}
					w.emitAll(evs)
				}
			}
		}()
	}
	for _, c := range cases {
		ch <- c
	}
	close(ch)
	wg.Wait()
	return nil
}
