// Command drive executes verification cases against the real go-modbus-client code and records
// what the code did.  It contains observation code only: no expected values, no protocol oracle.
// The TLA+ trace specifications in /verif/spec decide whether the recorded behaviour is allowed.
package main

import (
	"bufio"
	"encoding/json"
	"flag"
	"fmt"
	"os"
	"runtime"
	"strconv"
	"sync"
	"sync/atomic"
	"time"
)

type Ev = map[string]any

func ints(b []byte) []int {
	r := make([]int, len(b))
	for i, v := range b {
		r[i] = int(v)
	}
	return r
}

func bytesOf(a []int) []byte {
	r := make([]byte, len(a))
	for i, v := range a {
		r[i] = byte(v)
	}
	return r
}

func b2i(b bool) int {
	if b {
		return 1
	}
	return 0
}

type writer struct {
	mu sync.Mutex
	w  *bufio.Writer
	n  int
}

func (w *writer) emit(e Ev) {
	b, err := json.Marshal(e)
	if err != nil {
		panic(err)
	}
	w.mu.Lock()
	w.w.Write(b)
	w.w.WriteByte('\n')
	w.n++
	w.mu.Unlock()
}

func (w *writer) flush() {
	w.mu.Lock()
	w.w.Flush()
	w.mu.Unlock()
}

// emitAll writes a group of events contiguously
func (w *writer) emitAll(es []Ev) {
	w.mu.Lock()
	for _, e := range es {
		b, err := json.Marshal(e)
		if err != nil {
			panic(err)
		}
		w.w.Write(b)
		w.w.WriteByte('\n')
		w.n++
	}
	w.mu.Unlock()
}

// ---- watchdog -------------------------------------------------------------------------------------
// A library call that never returns (or allocates without bound) cannot be observed from inside the call, and
// the goroutine running it cannot be stopped.  The driver therefore keeps the case each worker is executing;
// when no event has been recorded and no case has started or ended for VERIF_WATCHDOG_S seconds (default 60)
// while a case is in progress, or the heap exceeds 6 GiB, the watchdog records ONE observation - "this case was
// still running" -, flushes the trace and ends the process.  What that means is the monitor's business; the
// confirmation run executes the case alone and must observe the same.
var watch struct {
	mu     sync.Mutex
	active map[int64][]byte
	next   int64
	ticks  atomic.Int64
}

func watchStart(raw []byte) int64 {
	watch.mu.Lock()
	defer watch.mu.Unlock()
	if watch.active == nil {
		watch.active = map[int64][]byte{}
	}
	watch.next++
	watch.active[watch.next] = append([]byte(nil), raw...)
	watch.ticks.Add(1)
	return watch.next
}

func watchEnd(id int64) {
	watch.mu.Lock()
	delete(watch.active, id)
	watch.mu.Unlock()
	watch.ticks.Add(1)
}

func startWatchdog(w *writer, out *os.File, sub string, args []string) {
	limit := 60 * time.Second
	if v, err := strconv.Atoi(os.Getenv("VERIF_WATCHDOG_S")); err == nil && v > 0 {
		limit = time.Duration(v) * time.Second
	}
	keep := []string{} // the family's own flags: the confirmation run needs them
	for i := 0; i < len(args); i++ {
		if args[i] == "-in" || args[i] == "-out" {
			i++
			continue
		}
		keep = append(keep, args[i])
	}
	go func() {
		last, lastChange := int64(-1), time.Now()
		var ms runtime.MemStats
		for k := 0; ; k++ {
			time.Sleep(250 * time.Millisecond)
			w.mu.Lock()
			progress := int64(w.n) + watch.ticks.Load()
			w.mu.Unlock()
			if progress != last {
				last, lastChange = progress, time.Now()
			}
			why := ""
			if k%4 == 0 {
				runtime.ReadMemStats(&ms)
				if ms.HeapAlloc > 6<<30 {
					why = "memory"
				}
			}
			watch.mu.Lock()
			var oldest int64
			for id := range watch.active {
				if oldest == 0 || id < oldest {
					oldest = id
				}
			}
			raw := watch.active[oldest]
			watch.mu.Unlock()
			if why == "" && oldest != 0 && time.Since(lastChange) > limit {
				why = "time"
			}
			if why == "" || oldest == 0 {
				continue
			}
			e := Ev{"op": "runaway", "ev": "runaway", "family": sub, "why": why, "args": keep, "case": json.RawMessage(raw),
				"heapMB": int(ms.HeapAlloc >> 20), "idleS": int(time.Since(lastChange).Seconds())}
			b, _ := json.Marshal(e)
			w.mu.Lock()
			w.w.Write(b)
			w.w.WriteByte('\n')
			w.n++
			w.w.Flush()
			out.Sync()
			fmt.Printf("events=%d (ended by the watchdog: %s)\n", w.n, why)
			os.Exit(0)
		}
	}()
}

func readCases(path string, f func(line []byte) error) error {
	if path == "" {
		return nil
	}
	fh, err := os.Open(path)
	if err != nil {
		return err
	}
	defer fh.Close()
	sc := bufio.NewScanner(fh)
	sc.Buffer(make([]byte, 1<<20), 64<<20)
	for sc.Scan() {
		if len(sc.Bytes()) == 0 {
			continue
		}
		id := watchStart(sc.Bytes())
		err := f(sc.Bytes())
		watchEnd(id)
		if err != nil {
			return err
		}
	}
	return sc.Err()
}

var (
	flagIn   string
	flagOut  string
	flagSeed int64
	flagTier string
	flagMode string
)

func main() {
	if len(os.Args) < 2 {
		fmt.Fprintln(os.Stderr, "usage: drive <family> -in cases -out trace")
		os.Exit(2)
	}
	sub := os.Args[1]
	fs := flag.NewFlagSet(sub, flag.ExitOnError)
	fs.StringVar(&flagIn, "in", "", "cases ndjson")
	fs.StringVar(&flagOut, "out", "", "trace ndjson")
	fs.Int64Var(&flagSeed, "seed", 1, "seed")
	fs.StringVar(&flagTier, "tier", "quick", "tier")
	fs.StringVar(&flagMode, "mode", "", "family specific mode")
	fs.Parse(os.Args[2:])

	out, err := os.Create(flagOut)
	if err != nil {
		fmt.Fprintln(os.Stderr, err)
		os.Exit(2)
	}
	w := &writer{w: bufio.NewWriterSize(out, 1<<20)}
	startWatchdog(w, out, sub, os.Args[2:])
	var derr error
	switch sub {
	case "codec":
		derr = driveCodec(w)
	case "regs":
		derr = driveRegs(w)
	case "split":
		derr = driveSplit(w)
	case "client":
		derr = driveClient(w)
	case "mutex":
		derr = driveMutex(w)
	case "stream":
		derr = driveStream(w)
	case "life":
		derr = driveLife(w)
	case "clife":
		derr = driveCLife(w)
	case "csession":
		derr = driveCSession(w)
	case "caddr":
		derr = driveCAddr(w)
	default:
		derr = fmt.Errorf("unknown family %q", sub)
	}
	w.w.Flush()
	out.Close()
	if derr != nil {
		fmt.Fprintln(os.Stderr, "driver error:", derr)
		os.Exit(2)
	}
	fmt.Printf("events=%d\n", w.n)
}
