// Command drive executes verification cases against the real go-modbus-client code and records
// what the code did.  It contains observation code only: no expected values, no protocol oracle.
// The TLA+ trace specifications in /verif/spec decide whether the recorded behaviour is allowed.
package main

import (
	"bufio"
	"encoding/json"
	"flag"
	"fmt"
	"os"
	"sync"
)

type Ev = map[string]any

func ints(b []byte) []int {
	r := make([]int, len(b))
	for i, v := range b {
		r[i] = int(v)
	}
	return r
}

func bytesOf(a []int) []byte {
	r := make([]byte, len(a))
	for i, v := range a {
		r[i] = byte(v)
	}
	return r
}

func b2i(b bool) int {
	if b {
		return 1
	}
	return 0
}

type writer struct {
	mu sync.Mutex
	w  *bufio.Writer
	n  int
}

func (w *writer) emit(e Ev) {
	b, err := json.Marshal(e)
	if err != nil {
		panic(err)
	}
	w.mu.Lock()
	w.w.Write(b)
	w.w.WriteByte('\n')
	w.n++
	w.mu.Unlock()
}

func (w *writer) flush() {
	w.mu.Lock()
	w.w.Flush()
	w.mu.Unlock()
}

// emitAll writes a group of events contiguously
func (w *writer) emitAll(es []Ev) {
	w.mu.Lock()
	for _, e := range es {
		b, err := json.Marshal(e)
		if err != nil {
			panic(err)
		}
		w.w.Write(b)
		w.w.WriteByte('\n')
		w.n++
	}
	w.mu.Unlock()
}

func readCases(path string, f func(line []byte) error) error {
	if path == "" {
		return nil
	}
	fh, err := os.Open(path)
	if err != nil {
		return err
	}
	defer fh.Close()
	sc := bufio.NewScanner(fh)
	sc.Buffer(make([]byte, 1<<20), 64<<20)
	for sc.Scan() {
		if len(sc.Bytes()) == 0 {
			continue
		}
		if err := f(sc.Bytes()); err != nil {
			return err
		}
	}
	return sc.Err()
}

var (
	flagIn   string
	flagOut  string
	flagSeed int64
	flagTier string
	flagMode string
)

func main() {
	if len(os.Args) < 2 {
		fmt.Fprintln(os.Stderr, "usage: drive <family> -in cases -out trace")
		os.Exit(2)
	}
	sub := os.Args[1]
	fs := flag.NewFlagSet(sub, flag.ExitOnError)
	fs.StringVar(&flagIn, "in", "", "cases ndjson")
	fs.StringVar(&flagOut, "out", "", "trace ndjson")
	fs.Int64Var(&flagSeed, "seed", 1, "seed")
	fs.StringVar(&flagTier, "tier", "quick", "tier")
	fs.StringVar(&flagMode, "mode", "", "family specific mode")
	fs.Parse(os.Args[2:])

	out, err := os.Create(flagOut)
	if err != nil {
		fmt.Fprintln(os.Stderr, err)
		os.Exit(2)
	}
	w := &writer{w: bufio.NewWriterSize(out, 1<<20)}
	var derr error
	switch sub {
	case "codec":
		derr = driveCodec(w)
	case "regs":
		derr = driveRegs(w)
	case "split":
		derr = driveSplit(w)
	case "client":
		derr = driveClient(w)
	case "mutex":
		derr = driveMutex(w)
	case "stream":
		derr = driveStream(w)
	case "life":
		derr = driveLife(w)
	case "clife":
		derr = driveCLife(w)
	case "csession":
		derr = driveCSession(w)
	default:
		derr = fmt.Errorf("unknown family %q", sub)
	}
	w.w.Flush()
	out.Close()
	if derr != nil {
		fmt.Fprintln(os.Stderr, "driver error:", derr)
		os.Exit(2)
	}
	fmt.Printf("events=%d\n", w.n)
}
