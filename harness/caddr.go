package main

import (
	"context"
	"encoding/json"
	"net"
	"strings"
	"time"

	modbus "github.com/aldas/go-modbus-client"
	"github.com/aldas/go-modbus-client/packet"
)

// Connect addresses (spec/ClientAddress.tla, check E06): an endpoint listens on the SAME loopback port over TCP
// and over UDP; the address text is the concatenation of the case's pieces with "ADDR" replaced by that
// endpoint's host:port; the client uses its OWN dial function.  Observed: did Connect fail, and which of the
// two sockets received the request bytes.

type caddrCase struct {
	Op     string   `json:"op"`
	Pieces []string `json:"pieces"`
}

func runCAddr(c *caddrCase) (e Ev) {
	e = Ev{"ev": "caddr", "pieces": c.Pieces, "outcome": "none", "text": ""}
	defer func() {
		if r := recover(); r != nil {
			e["outcome"] = "panic"
		}
	}()
	var tl net.Listener
	var ul net.PacketConn
	for try := 0; try < 20; try++ {
		l, err := net.Listen("tcp", "127.0.0.1:0")
		if err != nil {
			panic("verif: cannot listen on loopback: " + err.Error())
		}
		u, err := net.ListenPacket("udp", l.Addr().String())
		if err != nil {
			l.Close()
			continue
		}
		tl, ul = l, u
		break
	}
	if tl == nil {
		panic("verif: no port free on both TCP and UDP")
	}
	defer tl.Close()
	defer ul.Close()
	text := strings.ReplaceAll(strings.Join(c.Pieces, ""), "ADDR", tl.Addr().String())
	e["text"] = strings.ReplaceAll(text, tl.Addr().String(), "ADDR")

	got := make(chan string, 2)
	go func() {
		conn, err := tl.Accept()
		if err != nil {
			return
		}
		defer conn.Close()
		conn.SetReadDeadline(time.Now().Add(400 * time.Millisecond))
		b := make([]byte, 64)
		if n, _ := conn.Read(b); n > 0 {
			got <- "tcp"
		}
	}()
	go func() {
		ul.SetReadDeadline(time.Now().Add(900 * time.Millisecond))
		b := make([]byte, 64)
		if n, _, _ := ul.ReadFrom(b); n > 0 {
			got <- "udp"
		}
	}()

	cl := modbus.NewTCPClientWithConfig(modbus.ClientConfig{ReadTimeout: 30 * time.Millisecond, WriteTimeout: 200 * time.Millisecond})
	ctx, cancel := context.WithTimeout(context.Background(), 400*time.Millisecond)
	defer cancel()
	if err := cl.Connect(ctx, text); err != nil {
		e["outcome"] = "error"
		return e
	}
	defer cl.Close()
	req, _ := packet.NewReadHoldingRegistersRequestTCP(1, 0, 1)
	cl.Do(context.Background(), req) // nobody answers: only where the bytes go matters
	select {
	case where := <-got:
		e["outcome"] = where
	case <-time.After(300 * time.Millisecond):
	}
	return e
}

func driveCAddr(w *writer) error {
	return readCases(flagIn, func(line []byte) error {
		var c caddrCase
		if err := json.Unmarshal(line, &c); err != nil {
			return err
		}
		w.emit(runCAddr(&c))
		return nil
	})
}
