package main

import "errors"

func driveStream(w *writer) error { return errors.New("not built yet") }
func driveLife(w *writer) error   { return errors.New("not built yet") }
