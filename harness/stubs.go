package main

import "errors"

func driveLife(w *writer) error   { return errors.New("not built yet") }
