package main

import (
	"context"
	"encoding/json"
	"errors"
	"fmt"
	"io"
	"math/rand"
	"net"
	"os"
	"sync"
	"sync/atomic"
	"time"

	"github.com/aldas/go-modbus-client/packet"
	"github.com/aldas/go-modbus-client/server"
)

// C17 harness.  One server at a time (the verif hook is a package level variable).  In "life" mode a
// schedule produced by TLC from ServerLifecycle.tla is replayed: every hook point is a gate at which the
// calling goroutine (accept loop, connection goroutine, Shutdown) blocks until the schedule gives that
// process its next step.  In "liferand" mode nothing blocks (real scheduler, race detector build).

type lifeStep struct {
	A string `json:"a"`
	P int    `json:"p"`
}
type lifeCase struct {
	Op            string     `json:"op"`
	K             int        `json:"k"`
	OnServe       bool       `json:"onServe"`
	OnError       bool       `json:"onError"`
	OnAccept      bool       `json:"onAccept"`
	OnClose       bool       `json:"onClose"`
	Rejects       []int      `json:"rejects"`
	Steps         []lifeStep `json:"steps"`
	Seed          int64      `json:"seed"`
	Idx           int        `json:"idx"`
	SdOnServe     bool       `json:"sdOnServe"`
	SdBeforeServe bool       `json:"sdBeforeServe"`
	AddrHold      bool       `json:"addrHold"`
	TCP           bool       `json:"tcp"`
	// HandlerMs: every handler takes this long; SdCtxMs: the context given to Shutdown expires after this long
	HandlerMs int `json:"handlerMs"`
	SdCtxMs   int `json:"sdCtxMs"`
	// SdRetry: a Shutdown that gave up (context expired) is followed by a second, patient one
	SdRetry bool `json:"sdRetry"`
}

type lifeWorld struct {
	w      *writer
	mu     sync.Mutex
	seq    int
	gated  bool
	ids    map[net.Conn]int // server side conn -> client id
	pend   map[string]chan struct{}
	closed bool
	done   bool
	addrs  map[string]int // real TCP mode: client address -> client id
	nAdded int            // connections handed to a goroutine (track.add)
	nDone  int            // connection goroutines that finished their cleanup (conn.untracked)
}

func (lw *lifeWorld) log(e Ev) {
	lw.mu.Lock()
	if lw.done {
		lw.mu.Unlock()
		return // a goroutine of a finished scenario: its events do not belong to the next one
	}
	lw.seq++
	e["seq"] = lw.seq
	lw.w.emit(e)
	if e["ev"] == "end" {
		lw.done = true
	}
	lw.mu.Unlock()
}

func (lw *lifeWorld) idOfAddr(a net.Addr) int {
	if pa, ok := a.(*pipeAddr); ok {
		return pa.id
	}
	lw.mu.Lock()
	defer lw.mu.Unlock()
	return lw.addrs[a.String()]
}

func procOf(point string, id int) string {
	switch {
	case len(point) >= 3 && point[:3] == "sd.":
		return "sd"
	case point == "track.add" || point[:4] == "acce" || point[:4] == "ctx." || point[:4] == "serv":
		return "acc"
	default:
		return fmt.Sprintf("conn%d", id)
	}
}

func (lw *lifeWorld) hook(point string, conn net.Conn, n int64) {
	if point == "serve.start" && !lw.gated {
		return // free running: touch nothing shared here (a mutex would order serve's start-up before everything else)
	}
	id := 0
	lw.mu.Lock()
	if conn != nil {
		id = lw.ids[conn]
		if id == 0 && lw.addrs != nil {
			id = lw.addrs[conn.RemoteAddr().String()]
		}
	}
	gated := lw.gated && !lw.closed
	lw.mu.Unlock()
	if point == "serve.start" && !lw.gated {
		return // free running: no log access here (its mutex would order serve's start-up before everything else)
	}
	lw.log(Ev{"ev": "hook", "point": point, "conn": id, "n": int(n)})
	if point == "track.add" || point == "conn.untracked" {
		lw.mu.Lock()
		if point == "track.add" {
			lw.nAdded++
		} else {
			lw.nDone++
		}
		lw.mu.Unlock()
	}
	if !gated || point == "serve.start" {
		return
	}
	p := procOf(point, id)
	ch := make(chan struct{})
	lw.mu.Lock()
	if lw.closed {
		lw.mu.Unlock()
		return
	}
	lw.pend[p] = ch
	lw.mu.Unlock()
	<-ch
}

// release lets process p take one step; returns false if p is not waiting at a gate
func (lw *lifeWorld) release(p string, wait time.Duration) bool {
	deadline := time.Now().Add(wait)
	for {
		lw.mu.Lock()
		ch := lw.pend[p]
		if ch != nil {
			delete(lw.pend, p)
		}
		lw.mu.Unlock()
		if ch != nil {
			close(ch)
			return true
		}
		if time.Now().After(deadline) {
			return false
		}
		time.Sleep(100 * time.Microsecond)
	}
}

func (lw *lifeWorld) openAll() {
	lw.mu.Lock()
	lw.closed = true
	for k, ch := range lw.pend {
		close(ch)
		delete(lw.pend, k)
	}
	lw.mu.Unlock()
}

type lifeHandler struct {
	lw    *lifeWorld
	delay func() time.Duration
}

func (h *lifeHandler) Handle(ctx context.Context, received packet.Request) (packet.Response, error) {
	r, ok := received.(*packet.ReadHoldingRegistersRequestTCP)
	if !ok {
		return nil, errors.New("verif: unexpected request")
	}
	h.lw.log(Ev{"ev": "handler.start", "conn": int(r.UnitID)})
	if h.delay != nil {
		time.Sleep(h.delay())
	}
	return &packet.ReadHoldingRegistersResponseTCP{MBAPHeader: r.MBAPHeader,
		ReadHoldingRegistersResponse: packet.ReadHoldingRegistersResponse{UnitID: r.UnitID, RegisterByteLen: 2, Data: []byte{0, r.UnitID}}}, nil
}

type lifeClient struct {
	id      int
	conn    net.Conn
	mu      sync.Mutex
	replies int
	eof     bool
	sent    int
}

func (c *lifeClient) reader(lw *lifeWorld) {
	b := make([]byte, 64)
	got := 0
	for {
		n, err := c.conn.Read(b)
		got += n
		for got >= 11 {
			got -= 11
			c.mu.Lock()
			c.replies++
			c.mu.Unlock()
			lw.log(Ev{"ev": "cli.reply", "conn": c.id})
		}
		if err != nil {
			c.mu.Lock()
			c.eof = true
			c.mu.Unlock()
			lw.log(Ev{"ev": "cli.eof", "conn": c.id})
			return
		}
	}
}

func runLife(w *writer, c *lifeCase) {
	lw := &lifeWorld{w: w, gated: c.Op == "life", ids: map[net.Conn]int{}, pend: map[string]chan struct{}{}}
	rejects := map[int]bool{}
	for _, r := range c.Rejects {
		rejects[r] = true
	}
	w.emit(Ev{"ev": "reset", "idx": c.Idx, "mode": c.Op, "k": c.K, "onServe": c.OnServe, "onError": c.OnError, "onAccept": c.OnAccept, "onClose": c.OnClose,
		"rejects": orEmpty(c.Rejects)})
	w.flush()
	rng := rand.New(rand.NewSource(c.Seed))
	var rngMu sync.Mutex
	ln := newPipeListener()
	var tcpLn net.Listener
	if c.TCP {
		var err error
		tcpLn, err = net.Listen("tcp", "127.0.0.1:0")
		if err != nil {
			panic("verif: cannot listen on loopback: " + err.Error())
		}
		lw.addrs = map[string]int{}
	}
	addrOf := func(conn net.Conn) int {
		lw.mu.Lock()
		defer lw.mu.Unlock()
		return lw.ids[conn]
	}
	_ = addrOf
	srv := &server.Server{WriteTimeout: 500 * time.Millisecond, ReadTimeout: 1 * time.Millisecond}
	var earlyShutdown func()
	if c.OnServe {
		srv.OnServeFunc = func(addr net.Addr) {
			if c.SdOnServe && earlyShutdown != nil {
				earlyShutdown() // the application reacts to "server is up" by shutting it down again
				return
			}
			lw.log(Ev{"ev": "cb.serve"})
		}
	}
	if c.OnError {
		srv.OnErrorFunc = func(err error) { lw.log(Ev{"ev": "cb.error", "msg": err.Error()}) }
	}
	// the callbacks identify the connection by its remote address: the pipe listener gives each client its own
	if c.OnAccept {
		srv.OnAcceptConnFunc = func(ctx context.Context, remote net.Addr, count uint64) error {
			id := lw.idOfAddr(remote)
			dec := "accept"
			if rejects[id] {
				dec = "reject"
			}
			lw.log(Ev{"ev": "cb.accept", "conn": id, "arg": int(count), "decision": dec})
			if rejects[id] {
				return errors.New("verif: rejected")
			}
			return nil
		}
	}
	if c.OnClose {
		srv.OnCloseConnFunc = func(ctx context.Context, remote net.Addr, isShutdown bool) {
			lw.log(Ev{"ev": "cb.close", "conn": lw.idOfAddr(remote), "isShutdown": isShutdown})
		}
	}
	curWorld.Store(lw)

	h := &lifeHandler{lw: lw}
	if c.HandlerMs > 0 {
		h.delay = func() time.Duration { return time.Duration(c.HandlerMs) * time.Millisecond }
	} else if c.Op == "liferand" {
		h.delay = func() time.Duration {
			rngMu.Lock()
			defer rngMu.Unlock()
			return time.Duration(rng.Intn(4)*rng.Intn(6)) * time.Millisecond
		}
	}
	ctx, cancel := context.WithCancel(context.Background())
	defer cancel()
	served := make(chan struct{})
	sdDone := make(chan struct{})
	var sdOnce sync.Once
	var sdStartedFlag atomic.Bool
	startShutdown := func() {
		sdOnce.Do(func() {
			sdStartedFlag.Store(true)
			go func() {
				sdWait := 600 * time.Millisecond
				if c.SdCtxMs > 0 {
					sdWait = time.Duration(c.SdCtxMs) * time.Millisecond
				}
				sctx, scancel := context.WithTimeout(context.Background(), sdWait)
				defer scancel()
				t0 := time.Now()
				err := srv.Shutdown(sctx)
				kind := "other"
				switch {
				case err == nil:
					kind = "nil"
				case errors.Is(err, context.DeadlineExceeded):
					kind = "ctx"
				}
				lw.log(Ev{"ev": "shutdown.ret", "err": kind, "ms": int(time.Since(t0).Milliseconds())})
				if c.SdRetry && kind == "ctx" {
					// the application tries again, this time with patience
					lw.log(Ev{"ev": "op", "a": "shutdown", "p": 0})
					rctx, rcancel := context.WithTimeout(context.Background(), 2*time.Second)
					t1 := time.Now()
					err := srv.Shutdown(rctx)
					rcancel()
					kind = "other"
					switch {
					case err == nil:
						kind = "nil"
					case errors.Is(err, context.DeadlineExceeded):
						kind = "ctx"
					}
					lw.log(Ev{"ev": "shutdown.ret", "err": kind, "ms": int(time.Since(t1).Milliseconds())})
				}
				close(sdDone)
			}()
		})
	}
	earlyShutdown = startShutdown
	serveStarted := false // only the driving goroutine starts the serve call
	startServe := func() {
		if serveStarted {
			return
		}
		serveStarted = true
		func() {
			go func() {
				var err error
				var use net.Listener = ln
				if c.TCP {
					use = tcpLn
				}
				if c.AddrHold {
					use = &slowAddrListener{Listener: use}
				}
				err = srv.Serve(ctx, use, h)
				kind := "other"
				switch {
				case err == nil:
					kind = "nil"
				case errors.Is(err, server.ErrServerClosed):
					kind = "closed"
				}
				lw.log(Ev{"ev": "serve.ret", "err": kind})
				close(served)
			}()
		}()
	}
	// gated replay: the serve call begins with the schedule's first accept-loop step; free running: at once, unless
	// the scenario is "Shutdown comes before the serve call" (sdBeforeServe)
	if c.Op != "life" && !c.SdBeforeServe {
		startServe()
	}

	clients := map[int]*lifeClient{}
	var cmu sync.Mutex
	dial := func(id int) {
		if c.TCP {
			lw.log(Ev{"ev": "op", "a": "dial", "p": id})
			d := net.Dialer{Timeout: 300 * time.Millisecond}
			lw.mu.Lock() // the address must be known before the server can report the connection
			conn, err := d.Dial("tcp", tcpLn.Addr().String())
			if err == nil {
				lw.addrs[conn.LocalAddr().String()] = id
			}
			lw.mu.Unlock()
			if err != nil {
				lw.log(Ev{"ev": "dial.refused", "conn": id})
				return
			}
			cl := &lifeClient{id: id, conn: conn}
			cmu.Lock()
			clients[id] = cl
			cmu.Unlock()
			go cl.reader(lw)
			return
		}
		a, b := net.Pipe()
		sc := &pipeConn{Conn: b, remote: &pipeAddr{id: id}}
		lw.mu.Lock()
		lw.ids[sc] = id
		lw.mu.Unlock()
		connWorld.Store(net.Conn(sc), lw)
		lw.log(Ev{"ev": "op", "a": "dial", "p": id})
		select {
		case <-ln.closed:
			lw.log(Ev{"ev": "dial.refused", "conn": id})
			return
		case <-ln.failed:
			lw.log(Ev{"ev": "dial.refused", "conn": id})
			return
		default:
		}
		select {
		case ln.ch <- sc:
			cl := &lifeClient{id: id, conn: a}
			cmu.Lock()
			clients[id] = cl
			cmu.Unlock()
			go cl.reader(lw)
		case <-ln.closed:
			lw.log(Ev{"ev": "dial.refused", "conn": id})
		case <-time.After(300 * time.Millisecond):
			lw.log(Ev{"ev": "dial.refused", "conn": id})
		}
	}
	send := func(id int) {
		cmu.Lock()
		cl := clients[id]
		cmu.Unlock()
		if cl == nil {
			return
		}
		lw.log(Ev{"ev": "op", "a": "send", "p": id})
		cl.sent++
		go func() {
			cl.conn.SetWriteDeadline(time.Now().Add(time.Second))
			cl.conn.Write([]byte{0, byte(id), 0, 0, 0, 6, byte(id), 3, 0, 1, 0, 1})
		}()
	}
	hangup := func(id int) {
		cmu.Lock()
		cl := clients[id]
		cmu.Unlock()
		if cl == nil {
			return
		}
		lw.log(Ev{"ev": "op", "a": "hangup", "p": id})
		cl.conn.Close()
	}
	shutdown := func() {
		if sdStartedFlag.Load() {
			return
		}
		lw.log(Ev{"ev": "op", "a": "shutdown", "p": 0})
		startShutdown()
	}
	settle := func() { time.Sleep(1500 * time.Microsecond) }

	cancelled := false
	if c.Op == "life" {
		// wait until the accept loop is running
		time.Sleep(time.Millisecond)
		for _, st := range c.Steps {
			switch st.A {
			case "dial":
				dial(st.P)
			case "send":
				send(st.P)
			case "hangup":
				hangup(st.P)
			case "cancel":
				lw.log(Ev{"ev": "op", "a": "cancel", "p": 0})
				cancelled = true
				cancel()
			case "shutdown":
				shutdown()
			case "lfail":
				// the environment: the listener fails although neither Shutdown nor cancellation asked for it
				lw.log(Ev{"ev": "op", "a": "lfail", "p": 0})
				ln.fail()
			case "acc":
				if !serveStarted {
					startServe() // the serve call installs its listener: the accept loop's first step
					time.Sleep(time.Millisecond)
				} else {
					lw.release("acc", 15*time.Millisecond)
				}
			case "conn":
				lw.release(fmt.Sprintf("conn%d", st.P), 15*time.Millisecond)
			case "sd":
				lw.release("sd", 15*time.Millisecond)
			}
			settle()
		}
	} else {
		// free running: seeded client scripts, shutdown or cancel at a seeded point
		var wg sync.WaitGroup
		if c.AddrHold {
			stopAddr := make(chan struct{})
			defer close(stopAddr)
			go func() {
				for {
					select {
					case <-stopAddr:
						return
					default:
						// (Server.Addr() before the serve call has installed its listener dereferences nil - outside
						// what C17 quantifies over, noted in DESIGN.md; this helper simply tries again)
						func() {
							defer func() { _ = recover() }()
							_ = srv.Addr()
						}()
						time.Sleep(100 * time.Microsecond)
					}
				}
			}()
		}
		for id := 1; id <= c.K; id++ {
			wg.Add(1)
			go func(id int, seed int64) {
				defer wg.Done()
				r := rand.New(rand.NewSource(seed))
				time.Sleep(time.Duration(r.Intn(6)) * time.Millisecond)
				dial(id)
				for k := 0; k < r.Intn(3); k++ {
					time.Sleep(time.Duration(r.Intn(5)) * time.Millisecond)
					send(id)
				}
				time.Sleep(time.Duration(r.Intn(12)) * time.Millisecond)
				if r.Intn(2) == 0 {
					hangup(id)
				}
			}(id, c.Seed*131+int64(id))
		}
		rngMu.Lock()
		pause, doCancel := 2+rng.Intn(14), rng.Intn(3) == 0
		rngMu.Unlock()
		if c.SdBeforeServe {
			// Shutdown is called (and returns) before the serve call is made
			pause, doCancel = 0, false
		}
		time.Sleep(time.Duration(pause) * time.Millisecond)
		if doCancel {
			lw.log(Ev{"ev": "op", "a": "cancel", "p": 0})
			cancelled = true
			cancel()
		} else {
			shutdown()
			if c.SdBeforeServe {
				select {
				case <-sdDone:
				case <-time.After(time.Second):
				}
				startServe()
			}
		}
		wg.Wait()
	}
	startServe() // (a schedule without any accept-loop step: the serve call begins now)
	// let everything still blocked at a gate run to its end
	lw.openAll()
	if sdStartedFlag.Load() {
		sdPatience := 2 * time.Second // (the contexts given to Shutdown are 600 ms at most, 60 ms + 2 s with a retry)
		if c.SdRetry {
			sdPatience = 5 * time.Second
		}
		select {
		case <-sdDone:
		case <-time.After(sdPatience):
			lw.log(Ev{"ev": "shutdown.stuck"})
		}
	}
	servedOK := false
	wait := 1200 * time.Millisecond
	if !sdStartedFlag.Load() && !cancelled {
		// neither shutdown nor cancel in this schedule: end the server ourselves (not judged)
		lw.log(Ev{"ev": "op", "a": "teardown", "p": 0})
		cancel()
		ln.Close()
		if tcpLn != nil {
			tcpLn.Close()
		}
	}
	select {
	case <-served:
		servedOK = true
	case <-time.After(wait):
	}
	if !servedOK {
		// make sure the accept loop ends before the next scenario
		ln.Close()
		if tcpLn != nil {
			tcpLn.Close()
		}
		select {
		case <-served:
		case <-time.After(time.Second):
		}
	}
	// after a shutdown / cancel: can a client still connect?
	dialAfter := false
	if sdStartedFlag.Load() || cancelled {
		if c.TCP {
			if x, err := net.DialTimeout("tcp", tcpLn.Addr().String(), 100*time.Millisecond); err == nil {
				dialAfter = true // the port still accepts connections
				x.Close()
			}
		} else {
			select {
			case <-ln.closed:
			default:
				dialAfter = true // the listener still takes connections
			}
		}
	}
	time.Sleep(3 * time.Millisecond)
	// give connection goroutines time to finish their cleanup
	deadline := time.Now().Add(150 * time.Millisecond)
	for time.Now().Before(deadline) {
		all := true
		cmu.Lock()
		for _, cl := range clients {
			cl.mu.Lock()
			if !cl.eof {
				all = false
			}
			cl.mu.Unlock()
		}
		cmu.Unlock()
		if all {
			break
		}
		time.Sleep(time.Millisecond)
	}
	// wait until every connection goroutine has finished its cleanup (a handler may still be sleeping) ...
	for i := 0; i < 1500; i++ {
		lw.mu.Lock()
		fin := lw.nDone >= lw.nAdded
		lw.mu.Unlock()
		if fin {
			break
		}
		time.Sleep(time.Millisecond)
	}
	// ... and until the scenario has come to rest: no new event for a few milliseconds
	for i := 0; i < 60; i++ {
		lw.mu.Lock()
		s1 := lw.seq
		lw.mu.Unlock()
		time.Sleep(4 * time.Millisecond)
		lw.mu.Lock()
		same := lw.seq == s1
		lw.mu.Unlock()
		if same {
			break
		}
	}
	open := []int{}
	cmu.Lock()
	for id, cl := range clients {
		cl.mu.Lock()
		if !cl.eof {
			open = append(open, id)
		}
		cl.mu.Unlock()
		cl.conn.Close()
	}
	cmu.Unlock()
	sortInts(open)
	lw.log(Ev{"ev": "end", "served": servedOK, "dialAfter": dialAfter, "open": open})
	w.flush()
	time.Sleep(2 * time.Millisecond)
}

func sortInts(a []int) {
	for i := 1; i < len(a); i++ {
		for j := i; j > 0 && a[j] < a[j-1]; j-- {
			a[j], a[j-1] = a[j-1], a[j]
		}
	}
}

// slowAddrListener: Addr() takes a moment.  Server.Addr() calls it while holding the server's read lock, so a
// goroutine that keeps asking for the address stretches every lock acquisition of Shutdown and of the accept loop:
// whoever decided something BEFORE taking the lock finds the world changed when it finally gets it.
type slowAddrListener struct{ net.Listener }

func (l *slowAddrListener) Addr() net.Addr {
	time.Sleep(1500 * time.Microsecond)
	return l.Listener.Addr()
}

type pipeAddr struct{ id int }

func (a *pipeAddr) Network() string { return "pipe" }
func (a *pipeAddr) String() string  { return fmt.Sprintf("client-%d", a.id) }

// pipeConn gives the in-memory connection the observable behaviour of a TCP connection where the
// server code can tell the difference: closing an already closed connection fails with net.ErrClosed.
type pipeConn struct {
	net.Conn
	remote net.Addr
	closed atomic.Bool
}

func (c *pipeConn) RemoteAddr() net.Addr { return c.remote }

// Write is a gate of its own ("io.write"): the server goroutine has left the handler and is about to
// hand the reply to the transport - the schedule decides what the other goroutines do before it gets there.
func (c *pipeConn) Write(b []byte) (int, error) {
	dispatchHook("io.write", c, int64(len(b)))
	return c.Conn.Write(b)
}
func (c *pipeConn) Close() error {
	if c.closed.Swap(true) {
		return &net.OpError{Op: "close", Net: "tcp", Addr: c.remote, Err: net.ErrClosed}
	}
	return c.Conn.Close()
}

// The hook variable is set once per process; events are routed to the scenario they belong to (a late
// goroutine of a finished scenario must not write into the next one).
var curWorld atomic.Pointer[lifeWorld]
var connWorld sync.Map // net.Conn -> *lifeWorld

func dispatchHook(point string, conn net.Conn, n int64) {
	if conn != nil {
		if v, ok := connWorld.Load(conn); ok {
			v.(*lifeWorld).hook(point, conn, n)
		} else if lw := curWorld.Load(); lw != nil && lw.addrs != nil {
			lw.mu.Lock()
			_, known := lw.addrs[conn.RemoteAddr().String()]
			lw.mu.Unlock()
			if known {
				lw.hook(point, conn, n)
			}
		}
		return
	}
	if lw := curWorld.Load(); lw != nil {
		lw.hook(point, conn, n)
	}
}

func driveLife(w *writer) error {
	server.VerifHook = dispatchHook
	start := 0
	fmt.Sscanf(flagMode, "start=%d", &start)
	idx := 0
	err := readCases(flagIn, func(line []byte) error {
		c := &lifeCase{}
		if err := json.Unmarshal(line, c); err != nil {
			return err
		}
		c.Idx = idx
		idx++
		if c.Idx < start {
			return nil
		}
		runLife(w, c)
		return nil
	})
	_ = io.EOF
	_ = os.Stderr
	return err
}
