package main

import (
	"context"
	"encoding/binary"
	"io"
	"net"
	"time"

	modbus "github.com/aldas/go-modbus-client"
	"github.com/aldas/go-modbus-client/packet"
)

// A conforming coil device behind a real connection (C11: "written with write-multiple-coils and read back
// through a conforming device").  It keeps one bit per coil address and lays them out as the Modbus
// specification says: coil start+i is bit (i mod 8) of payload byte (i div 8).  It knows FC15 and FC1/FC2 only.
type coilDevice struct {
	coils [65536]bool
	rtu   bool
}

func (d *coilDevice) serve(conn net.Conn) {
	defer conn.Close()
	for {
		var hdr []byte
		var pdu []byte
		if d.rtu {
			head := make([]byte, 7) // unit fc addr(2) qty(2) + (bc | crc0)
			if _, err := io.ReadFull(conn, head); err != nil {
				return
			}
			rest := 1 // second crc byte of the 8 byte read request
			if head[1] == 15 {
				rest = int(head[6]) + 2
			}
			tail := make([]byte, rest)
			if _, err := io.ReadFull(conn, tail); err != nil {
				return
			}
			all := append(head, tail...)
			hdr, pdu = all[:1], all[1:len(all)-2]
		} else {
			hdr = make([]byte, 7)
			if _, err := io.ReadFull(conn, hdr); err != nil {
				return
			}
			pdu = make([]byte, int(binary.BigEndian.Uint16(hdr[4:6]))-1)
			if _, err := io.ReadFull(conn, pdu); err != nil {
				return
			}
		}
		addr, qty := int(binary.BigEndian.Uint16(pdu[1:3])), int(binary.BigEndian.Uint16(pdu[3:5]))
		var resp []byte
		switch pdu[0] {
		case 1, 2:
			n := (qty + 7) / 8
			resp = append([]byte{pdu[0], byte(n)}, make([]byte, n)...)
			for i := 0; i < qty; i++ {
				if d.coils[(addr+i)&0xffff] {
					resp[2+i/8] |= 1 << (i % 8)
				}
			}
		case 15:
			// a conforming device: the byte count must be the quantity's, and the frame must carry that many bytes
			if qty < 1 || qty > 1968 || len(pdu) < 6 || int(pdu[5]) != (qty+7)/8 || len(pdu) != 6+int(pdu[5]) {
				resp = []byte{pdu[0] | 0x80, 3}
				break
			}
			for i := 0; i < qty; i++ {
				d.coils[(addr+i)&0xffff] = pdu[6+i/8]&(1<<(i%8)) != 0
			}
			resp = pdu[0:5]
		default:
			resp = []byte{pdu[0] | 0x80, 1}
		}
		var out []byte
		if d.rtu {
			out = append([]byte{hdr[0]}, resp...)
			crc := packet.CRC16(out)
			out = append(out, byte(crc), byte(crc>>8))
		} else {
			out = make([]byte, 7, 7+len(resp))
			copy(out, hdr)
			binary.BigEndian.PutUint16(out[4:6], uint16(len(resp)+1))
			out = append(out, resp...)
		}
		if _, err := conn.Write(out); err != nil {
			return
		}
	}
}

type coilReader interface {
	IsCoilSet(startAddress uint16, coilAddress uint16) (bool, error)
}

// doCoilDevice: through the library's own client: write pattern A, read it back, write the complement, read
// that back - and only THEN look the coils up in both responses, as a caller that keeps its responses does.
func doCoilDevice(c *codecCase) Ev {
	comp := make([]int, len(c.Coils))
	for i, v := range c.Coils {
		comp[i] = 1 - v
	}
	e := Ev{"op": "coildevice", "framing": c.Framing, "start": c.Addr, "coilsA": orEmpty(c.Coils), "coilsB": comp,
		"ran": false, "gotA": []int{}, "gotB": []int{}, "outcome": "ok", "err": ""}
	if len(c.Coils) == 0 || len(c.Coils) > 1968 || c.Addr+len(c.Coils) > 65536 {
		return e
	}
	func() {
		defer func() {
			if p := recover(); p != nil {
				e["outcome"] = "panic"
			}
		}()
		a, b := net.Pipe()
		dev := &coilDevice{rtu: c.Framing == "rtu"}
		go dev.serve(b)
		defer a.Close()
		conf := modbus.ClientConfig{ReadTimeout: 2 * time.Second, WriteTimeout: 2 * time.Second,
			DialContextFunc: func(ctx context.Context, address string) (net.Conn, error) { return a, nil }}
		var cl *modbus.Client
		if dev.rtu {
			cl = modbus.NewRTUClientWithConfig(conf)
		} else {
			cl = modbus.NewTCPClientWithConfig(conf)
		}
		if err := cl.Connect(context.Background(), "verif:502"); err != nil {
			e["err"] = "connect: " + err.Error()
			return
		}
		round := func(pattern []int) (coilReader, string) {
			bs := make([]bool, len(pattern))
			for i, v := range pattern {
				bs[i] = v == 1
			}
			var wr, rd packet.Request
			var err error
			if dev.rtu {
				wr, err = packet.NewWriteMultipleCoilsRequestRTU(uint8(c.Unit), uint16(c.Addr), bs)
			} else {
				wr, err = packet.NewWriteMultipleCoilsRequestTCP(uint8(c.Unit), uint16(c.Addr), bs)
			}
			if err != nil {
				return nil, "write request: " + err.Error()
			}
			if _, err := cl.Do(context.Background(), wr); err != nil {
				return nil, "write: " + err.Error()
			}
			if dev.rtu {
				rd, err = packet.NewReadCoilsRequestRTU(uint8(c.Unit), uint16(c.Addr), uint16(len(pattern)))
			} else {
				rd, err = packet.NewReadCoilsRequestTCP(uint8(c.Unit), uint16(c.Addr), uint16(len(pattern)))
			}
			if err != nil {
				return nil, "read request: " + err.Error()
			}
			resp, err := cl.Do(context.Background(), rd)
			if err != nil {
				return nil, "read: " + err.Error()
			}
			cr, ok := resp.(coilReader)
			if !ok {
				return nil, "read: response has no coil lookup"
			}
			return cr, ""
		}
		ra, msg := round(c.Coils)
		if msg != "" {
			e["err"] = msg
			return
		}
		rb, msg := round(comp)
		if msg != "" {
			e["err"] = msg
			return
		}
		lookup := func(r coilReader, n int) []int {
			got := make([]int, 0, n)
			for i := 0; i < n; i++ {
				v, err := r.IsCoilSet(uint16(c.Addr), uint16(c.Addr+i))
				if err != nil {
					got = append(got, 2)
				} else {
					got = append(got, b2i(v))
				}
			}
			return got
		}
		e["gotA"], e["gotB"] = lookup(ra, len(c.Coils)), lookup(rb, len(c.Coils))
		e["ran"] = true
	}()
	return e
}
