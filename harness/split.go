package main

import (
	"encoding/json"
	"fmt"

	modbus "github.com/aldas/go-modbus-client"
	"github.com/aldas/go-modbus-client/packet"
)

type sField struct {
	Server string `json:"server"`
	Unit   int    `json:"unit"`
	Addr   int    `json:"addr"`
	Type   int    `json:"type"`
	Bit    int    `json:"bit"`
	High   int    `json:"high"`
	Len    int    `json:"len"`
	Order  int    `json:"order"`
	Name   string `json:"name"`
}

type sTarget struct {
	Fc      int    `json:"fc"`
	Framing string `json:"framing"`
}

type splitCase struct {
	Op     string   `json:"op"`
	Target sTarget  `json:"target"`
	Fields []sField `json:"fields"`
	E2E    bool     `json:"e2e"`
	Mem    int      `json:"mem"`
	// Again: further targets generated afterwards from the SAME builder (a history of Read* calls)
	Again []sTarget `json:"again"`
	// Fluent: build the fields through the builder's fluent API (b.Uint16(addr).UnitID(..)...) instead of AddAll
	Fluent bool `json:"fluent"`
}

func toField(f sField) modbus.Field {
	return modbus.Field{Name: f.Name, ServerAddress: f.Server, UnitID: uint8(f.Unit), Address: uint16(f.Addr), Type: modbus.FieldType(f.Type),
		Bit: uint8(f.Bit), FromHighByte: f.High != 0, Length: uint8(f.Len), ByteOrder: packet.ByteOrder(f.Order)}
}

func fromField(f modbus.Field) sField {
	return sField{Server: f.ServerAddress, Unit: int(f.UnitID), Addr: int(f.Address), Type: int(f.Type), Bit: int(f.Bit), High: b2i(f.FromHighByte),
		Len: int(f.Length), Order: int(f.ByteOrder), Name: f.Name}
}

func fromFields(fs modbus.Fields) []sField {
	r := make([]sField, 0, len(fs))
	for _, f := range fs {
		r = append(r, fromField(f))
	}
	return r
}

// fluentField creates the field through the builder's typed constructor (nil when there is none for the type)
func fluentField(b *modbus.Builder, f sField) *modbus.BField {
	a := uint16(f.Addr)
	var bf *modbus.BField
	switch modbus.FieldType(f.Type) {
	case modbus.FieldTypeBit:
		bf = b.Bit(a, uint8(f.Bit))
	case modbus.FieldTypeByte:
		bf = b.Byte(a, f.High != 0)
	case modbus.FieldTypeUint8:
		bf = b.Uint8(a, f.High != 0)
	case modbus.FieldTypeInt8:
		bf = b.Int8(a, f.High != 0)
	case modbus.FieldTypeUint16:
		bf = b.Uint16(a)
	case modbus.FieldTypeInt16:
		bf = b.Int16(a)
	case modbus.FieldTypeUint32:
		bf = b.Uint32(a)
	case modbus.FieldTypeInt32:
		bf = b.Int32(a)
	case modbus.FieldTypeUint64:
		bf = b.Uint64(a)
	case modbus.FieldTypeInt64:
		bf = b.Int64(a)
	case modbus.FieldTypeFloat32:
		bf = b.Float32(a)
	case modbus.FieldTypeFloat64:
		bf = b.Float64(a)
	case modbus.FieldTypeString:
		bf = b.String(a, uint8(f.Len))
	case modbus.FieldTypeCoil:
		bf = b.Coil(a)
	default:
		return nil
	}
	// the typed constructors do not take these attributes: they are part of the definition under test
	if modbus.FieldType(f.Type) != modbus.FieldTypeBit && f.Bit != 0 {
		bf.Field.Bit = uint8(f.Bit)
	}
	if f.High != 0 {
		bf.Field.FromHighByte = true
	}
	if modbus.FieldType(f.Type) != modbus.FieldTypeString && f.Len != 0 {
		bf.Field.Length = uint8(f.Len)
	}
	return bf
}

func doSplit(b *modbus.Builder, t sTarget) ([]modbus.BuilderRequest, error) {
	tcp := t.Framing == "tcp"
	switch t.Fc {
	case 1:
		if tcp {
			return b.ReadCoilsTCP()
		}
		return b.ReadCoilsRTU()
	case 2:
		if tcp {
			return b.ReadDiscreteInputsTCP()
		}
		return b.ReadDiscreteInputsRTU()
	case 3:
		if tcp {
			return b.ReadHoldingRegistersTCP()
		}
		return b.ReadHoldingRegistersRTU()
	case 4:
		if tcp {
			return b.ReadInputRegistersTCP()
		}
		return b.ReadInputRegistersRTU()
	}
	return nil, fmt.Errorf("harness: bad target")
}

// device memory: the same deterministic formulas as Splitter.tla (MemHi/MemLo); what the harness
// sends as the device's answer is validated by the monitor against the specification's device.
func srvIdx(s string) int {
	switch s {
	case "a:1":
		return 0
	case "b:2":
		return 1
	}
	return 2
}
func memBytes(v int, srv string, unit, addr, n int) []byte {
	r := make([]byte, 0, 2*n)
	for i := 0; i < n; i++ {
		a := addr + i
		hi := ((a*7+3+unit)%251 + 1)
		lo := ((a*11+5+srvIdx(srv))%241 + 1)
		if v == 1 && a%5 == 3 {
			lo = 0
		}
		r = append(r, byte(hi), byte(lo))
	}
	return r
}

func reqDesc(r modbus.BuilderRequest) Ev {
	d := Ev{"server": r.ServerAddress, "unit": int(r.UnitID), "start": int(r.StartAddress), "qty": 0, "fields": fromFields(r.Fields), "bytes": []int{}}
	if r.Request != nil {
		d["bytes"] = ints(r.Request.Bytes())
		f, _, ok := reqFields(r.Request)
		if ok {
			d["qty"] = f["qty"]
		}
	}
	return d
}

func driveSplit(w *writer) error {
	return readCases(flagIn, func(line []byte) error {
		var c splitCase
		if err := json.Unmarshal(line, &c); err != nil {
			return err
		}
		b := modbus.NewRequestBuilder("", 0)
		fs := modbus.Fields{}
		for _, f := range c.Fields {
			fs = append(fs, toField(f))
		}
		if c.Fluent && len(c.Fields) > 0 {
			// defaults of the builder = the first field's target; every other field sets its own
			b = modbus.NewRequestBuilder(c.Fields[0].Server, uint8(c.Fields[0].Unit))
			for i, f := range c.Fields {
				bf := fluentField(b, f)
				if bf == nil {
					b.AddAll(modbus.Fields{toField(f)}) // not expressible through the fluent API (invalid type)
					continue
				}
				if i > 0 || f.Server != c.Fields[0].Server {
					bf = bf.ServerAddress(f.Server)
				}
				if i > 0 || f.Unit != c.Fields[0].Unit {
					bf = bf.UnitID(uint8(f.Unit))
				}
				b.Add(bf.ByteOrder(packet.ByteOrder(f.Order)).Name(f.Name))
			}
		} else {
			b.AddAll(fs)
			// the caller goes on using ITS list (re-targets it, appends to it): the builder must have taken the fields, not the slice
			for i := range fs {
				fs[i] = modbus.Field{ServerAddress: "verif-junk:1", UnitID: 99, Address: uint16(60000 + i), Type: modbus.FieldTypeUint16, Name: "junk"}
			}
			if cap(fs) > len(fs) {
				_ = append(fs, modbus.Field{ServerAddress: "verif-junk:1", UnitID: 99, Address: 61000, Type: modbus.FieldTypeCoil, Name: "junk"})
			}
		}
		all := append([]sTarget{c.Target}, c.Again...)
		for i, t := range all {
			splitOnce(w, &c, b, t, all[:i])
		}
		return nil
	})
}

// splitOnce generates the requests for one target from the (shared) builder and, for e2e cases, runs the
// device / parse / extract chain on every produced request.  The event always carries the ORIGINAL field list.
func splitOnce(w *writer, c *splitCase, b *modbus.Builder, target sTarget, hist []sTarget) {
	{
		e := Ev{"ev": "split", "target": target, "fields": c.Fields, "outcome": "", "requests": []Ev{}, "hist": hist, "fluent": c.Fluent}
		if c.Fields == nil {
			e["fields"] = []sField{}
		}
		var reqs []modbus.BuilderRequest
		func() {
			defer func() {
				if p := recover(); p != nil {
					e["outcome"] = "panic"
				}
			}()
			var err error
			reqs, err = doSplit(b, target)
			if err != nil {
				e["outcome"] = "err"
				return
			}
			e["outcome"] = "ok"
			ds := []Ev{}
			for _, r := range reqs {
				ds = append(ds, reqDesc(r))
			}
			e["requests"] = ds
		}()
		w.emit(e)
		if !c.E2E || e["outcome"] != "ok" || target.Fc < 3 {
			return
		}
		for _, r := range reqs {
			d := reqDesc(r)
			qty := d["qty"].(int)
			truncs := []int{0}
			for k := 1; k <= 4 && k < qty; k++ {
				truncs = append(truncs, k)
			}
			if qty > 8 {
				truncs = append(truncs, qty/2, qty-1)
			}
			for _, tr := range truncs {
				data := memBytes(c.Mem, r.ServerAddress, int(r.UnitID), int(r.StartAddress), qty-tr)
				var respBytes []byte
				tid := uint16(0)
				if target.Framing == "tcp" {
					bb := r.Request.Bytes()
					tid = uint16(bb[0])<<8 | uint16(bb[1])
				}
				hdr := packet.MBAPHeader{TransactionID: tid}
				switch {
				case target.Fc == 3 && target.Framing == "tcp":
					respBytes = (&packet.ReadHoldingRegistersResponseTCP{MBAPHeader: hdr, ReadHoldingRegistersResponse: packet.ReadHoldingRegistersResponse{UnitID: r.UnitID, RegisterByteLen: uint8(len(data)), Data: data}}).Bytes()
				case target.Fc == 3:
					respBytes = (&packet.ReadHoldingRegistersResponseRTU{ReadHoldingRegistersResponse: packet.ReadHoldingRegistersResponse{UnitID: r.UnitID, RegisterByteLen: uint8(len(data)), Data: data}}).Bytes()
				case target.Fc == 4 && target.Framing == "tcp":
					respBytes = (&packet.ReadInputRegistersResponseTCP{MBAPHeader: hdr, ReadInputRegistersResponse: packet.ReadInputRegistersResponse{UnitID: r.UnitID, RegisterByteLen: uint8(len(data)), Data: data}}).Bytes()
				default:
					respBytes = (&packet.ReadInputRegistersResponseRTU{ReadInputRegistersResponse: packet.ReadInputRegistersResponse{UnitID: r.UnitID, RegisterByteLen: uint8(len(data)), Data: data}}).Bytes()
				}
				for _, mode := range []string{"strict", "lenient"} {
					x := Ev{"ev": "extract", "target": target, "mem": c.Mem, "req": d, "mode": mode, "truncBy": tr, "response": ints(respBytes),
						"parsed": "", "outcome": "", "hadErr": false, "values": []Ev{}, "hist": hist, "fluent": c.Fluent}
					func() {
						defer func() {
							if p := recover(); p != nil {
								x["outcome"] = "panic"
							}
						}()
						// the client's receive buffer is larger than the frame: keep spare capacity with sentinels
						in := withTail(respBytes, []byte{0xEE, 0xEE, 0xEE, 0xEE, 0xEE, 0xEE, 0xEE, 0xEE})
						var resp packet.Response
						var err error
						if target.Framing == "tcp" {
							resp, err = packet.ParseTCPResponse(in)
						} else {
							resp, err = packet.ParseRTUResponseWithCRC(in)
						}
						if err != nil {
							x["parsed"] = "err"
							x["outcome"] = "err"
							return
						}
						x["parsed"] = "ok"
						vals, err := r.ExtractFields(resp, mode == "lenient")
						x["hadErr"] = err != nil
						if vals == nil {
							x["outcome"] = "err"
							return
						}
						x["outcome"] = "ok"
						vs := []Ev{}
						for _, fv := range vals {
							v := Ev{"field": fromField(fv.Field), "value": []int{}, "err": b2i(fv.Error != nil)}
							if fv.Error == nil {
								v["value"] = valueBytes(fv.Value)
							}
							vs = append(vs, v)
						}
						x["values"] = vs
					}()
					w.emit(x)
				}
			}
		}
	}
}
