package main

import (
	"context"
	"encoding/json"
	"errors"
	"fmt"
	"math/rand"
	"reflect"

	modbus "github.com/aldas/go-modbus-client"
	"github.com/aldas/go-modbus-client/packet"
	"github.com/aldas/go-modbus-client/server"
)

// codecCase is the union of all inputs a codec case can carry.
type codecCase struct {
	argCoils []bool // the []bool handed to the most recent coil constructor call for this case
	Op       string `json:"op"`
	Fc       int    `json:"fc"`
	Framing  string `json:"framing"`
	Unit     int    `json:"unit"`
	Addr     int    `json:"addr"`
	Qty      int    `json:"qty"`
	Data     []int  `json:"data"`
	Coils    []int  `json:"coils"`
	Waddr    int    `json:"waddr"`
	Tid      int    `json:"tid"`
	Entry    string `json:"entry"`
	Frame    []int  `json:"frame"`
	Tail     []int  `json:"tail"`
	Allow    bool   `json:"allow"`
	Msg      []int  `json:"msg"`
	Payload  []int  `json:"payload"`
	Start    int    `json:"start"`
	Method   string `json:"method"`
	From     int    `json:"from"`
	To       int    `json:"to"`
	Pat      string `json:"pat"`
	Table    []int  `json:"table"`
	Init     int    `json:"init"`
	N        int    `json:"n"`
	Len      int    `json:"len"`
	Tag      string `json:"tag"`
}

func coilsOf(a []int) []bool {
	r := make([]bool, len(a))
	for i, v := range a {
		r[i] = v != 0
	}
	return r
}

// newReq calls the library constructor for the case's function code and framing.
func newReq(c *codecCase) (packet.Request, error) {
	u, a, q := uint8(c.Unit), uint16(c.Addr), uint16(c.Qty)
	tcp := c.Framing == "tcp"
	var r packet.Request
	var err error
	argData, argCoils := bytesOf(c.Data), coilsOf(c.Coils)
	c.argCoils = argCoils // (the caller of a coil constructor may reuse its []bool afterwards, see doNewReq)
	switch c.Fc {
	case 1:
		if tcp {
			r, err = nilIfErr(packet.NewReadCoilsRequestTCP(u, a, q))
		} else {
			r, err = nilIfErr(packet.NewReadCoilsRequestRTU(u, a, q))
		}
	case 2:
		if tcp {
			r, err = nilIfErr(packet.NewReadDiscreteInputsRequestTCP(u, a, q))
		} else {
			r, err = nilIfErr(packet.NewReadDiscreteInputsRequestRTU(u, a, q))
		}
	case 3:
		if tcp {
			r, err = nilIfErr(packet.NewReadHoldingRegistersRequestTCP(u, a, q))
		} else {
			r, err = nilIfErr(packet.NewReadHoldingRegistersRequestRTU(u, a, q))
		}
	case 4:
		if tcp {
			r, err = nilIfErr(packet.NewReadInputRegistersRequestTCP(u, a, q))
		} else {
			r, err = nilIfErr(packet.NewReadInputRegistersRequestRTU(u, a, q))
		}
	case 5:
		if tcp {
			r, err = nilIfErr(packet.NewWriteSingleCoilRequestTCP(u, a, c.Qty != 0))
		} else {
			r, err = nilIfErr(packet.NewWriteSingleCoilRequestRTU(u, a, c.Qty != 0))
		}
	case 6:
		if tcp {
			r, err = nilIfErr(packet.NewWriteSingleRegisterRequestTCP(u, a, argData))
		} else {
			r, err = nilIfErr(packet.NewWriteSingleRegisterRequestRTU(u, a, argData))
		}
	case 15:
		if tcp {
			r, err = nilIfErr(packet.NewWriteMultipleCoilsRequestTCP(u, a, argCoils))
		} else {
			r, err = nilIfErr(packet.NewWriteMultipleCoilsRequestRTU(u, a, argCoils))
		}
	case 16:
		if tcp {
			r, err = nilIfErr(packet.NewWriteMultipleRegistersRequestTCP(u, a, argData))
		} else {
			r, err = nilIfErr(packet.NewWriteMultipleRegistersRequestRTU(u, a, argData))
		}
	case 17:
		if tcp {
			r, err = nilIfErr(packet.NewReadServerIDRequestTCP(u))
		} else {
			r, err = nilIfErr(packet.NewReadServerIDRequestRTU(u))
		}
	case 23:
		if tcp {
			r, err = nilIfErr(packet.NewReadWriteMultipleRegistersRequestTCP(u, a, q, uint16(c.Waddr), argData))
		} else {
			r, err = nilIfErr(packet.NewReadWriteMultipleRegistersRequestRTU(u, a, q, uint16(c.Waddr), argData))
		}
	default:
		return nil, fmt.Errorf("harness: no constructor for fc %d", c.Fc)
	}
	return r, err
}

func nilIfErr[T packet.Request](v T, err error) (packet.Request, error) {
	if err != nil {
		return nil, err
	}
	return v, nil
}

// tidOf / setTid use the exported embedded MBAPHeader of the TCP request types.
func setTid(r packet.Request, tid uint16) {
	switch v := r.(type) {
	case *packet.ReadCoilsRequestTCP:
		v.TransactionID = tid
	case *packet.ReadDiscreteInputsRequestTCP:
		v.TransactionID = tid
	case *packet.ReadHoldingRegistersRequestTCP:
		v.TransactionID = tid
	case *packet.ReadInputRegistersRequestTCP:
		v.TransactionID = tid
	case *packet.WriteSingleCoilRequestTCP:
		v.TransactionID = tid
	case *packet.WriteSingleRegisterRequestTCP:
		v.TransactionID = tid
	case *packet.WriteMultipleCoilsRequestTCP:
		v.TransactionID = tid
	case *packet.WriteMultipleRegistersRequestTCP:
		v.TransactionID = tid
	case *packet.ReadServerIDRequestTCP:
		v.TransactionID = tid
	case *packet.ReadWriteMultipleRegistersRequestTCP:
		v.TransactionID = tid
	}
}

func zeroReqFields() Ev {
	return Ev{"fc": 0, "unit": 0, "addr": 0, "qty": 0, "data": []int{}, "waddr": 0, "wqty": 0}
}

// reqFields projects a parsed/constructed request onto the specification's record shape.
// Returns (fields, tid, known type).
func reqFields(x any) (Ev, int, bool) {
	f := zeroReqFields()
	tid := 0
	coil := func(b bool) int {
		if b {
			return 0xFF00
		}
		return 0
	}
	rc := func(fc int, r packet.ReadCoilsRequest) {
		f["fc"], f["unit"], f["addr"], f["qty"] = fc, int(r.UnitID), int(r.StartAddress), int(r.Quantity)
	}
	switch v := x.(type) {
	case *packet.ReadCoilsRequestTCP:
		rc(1, v.ReadCoilsRequest)
		tid = int(v.TransactionID)
	case *packet.ReadCoilsRequestRTU:
		rc(1, v.ReadCoilsRequest)
	case *packet.ReadDiscreteInputsRequestTCP:
		f["fc"], f["unit"], f["addr"], f["qty"] = 2, int(v.UnitID), int(v.StartAddress), int(v.Quantity)
		tid = int(v.TransactionID)
	case *packet.ReadDiscreteInputsRequestRTU:
		f["fc"], f["unit"], f["addr"], f["qty"] = 2, int(v.UnitID), int(v.StartAddress), int(v.Quantity)
	case *packet.ReadHoldingRegistersRequestTCP:
		f["fc"], f["unit"], f["addr"], f["qty"] = 3, int(v.UnitID), int(v.StartAddress), int(v.Quantity)
		tid = int(v.TransactionID)
	case *packet.ReadHoldingRegistersRequestRTU:
		f["fc"], f["unit"], f["addr"], f["qty"] = 3, int(v.UnitID), int(v.StartAddress), int(v.Quantity)
	case *packet.ReadInputRegistersRequestTCP:
		f["fc"], f["unit"], f["addr"], f["qty"] = 4, int(v.UnitID), int(v.StartAddress), int(v.Quantity)
		tid = int(v.TransactionID)
	case *packet.ReadInputRegistersRequestRTU:
		f["fc"], f["unit"], f["addr"], f["qty"] = 4, int(v.UnitID), int(v.StartAddress), int(v.Quantity)
	case *packet.WriteSingleCoilRequestTCP:
		f["fc"], f["unit"], f["addr"], f["qty"] = 5, int(v.UnitID), int(v.Address), coil(v.CoilState)
		tid = int(v.TransactionID)
	case *packet.WriteSingleCoilRequestRTU:
		f["fc"], f["unit"], f["addr"], f["qty"] = 5, int(v.UnitID), int(v.Address), coil(v.CoilState)
	case *packet.WriteSingleRegisterRequestTCP:
		f["fc"], f["unit"], f["addr"], f["data"] = 6, int(v.UnitID), int(v.Address), ints(v.Data[:])
		tid = int(v.TransactionID)
	case *packet.WriteSingleRegisterRequestRTU:
		f["fc"], f["unit"], f["addr"], f["data"] = 6, int(v.UnitID), int(v.Address), ints(v.Data[:])
	case *packet.WriteMultipleCoilsRequestTCP:
		f["fc"], f["unit"], f["addr"], f["qty"], f["data"] = 15, int(v.UnitID), int(v.StartAddress), int(v.CoilCount), ints(v.Data)
		tid = int(v.TransactionID)
	case *packet.WriteMultipleCoilsRequestRTU:
		f["fc"], f["unit"], f["addr"], f["qty"], f["data"] = 15, int(v.UnitID), int(v.StartAddress), int(v.CoilCount), ints(v.Data)
	case *packet.WriteMultipleRegistersRequestTCP:
		f["fc"], f["unit"], f["addr"], f["qty"], f["data"] = 16, int(v.UnitID), int(v.StartAddress), int(v.RegisterCount), ints(v.Data)
		tid = int(v.TransactionID)
	case *packet.WriteMultipleRegistersRequestRTU:
		f["fc"], f["unit"], f["addr"], f["qty"], f["data"] = 16, int(v.UnitID), int(v.StartAddress), int(v.RegisterCount), ints(v.Data)
	case *packet.ReadServerIDRequestTCP:
		f["fc"], f["unit"] = 17, int(v.UnitID)
		tid = int(v.TransactionID)
	case *packet.ReadServerIDRequestRTU:
		f["fc"], f["unit"] = 17, int(v.UnitID)
	case *packet.ReadWriteMultipleRegistersRequestTCP:
		f["fc"], f["unit"], f["addr"], f["qty"] = 23, int(v.UnitID), int(v.ReadStartAddress), int(v.ReadQuantity)
		f["waddr"], f["wqty"], f["data"] = int(v.WriteStartAddress), int(v.WriteQuantity), ints(v.WriteData)
		tid = int(v.TransactionID)
	case *packet.ReadWriteMultipleRegistersRequestRTU:
		f["fc"], f["unit"], f["addr"], f["qty"] = 23, int(v.UnitID), int(v.ReadStartAddress), int(v.ReadQuantity)
		f["waddr"], f["wqty"], f["data"] = int(v.WriteStartAddress), int(v.WriteQuantity), ints(v.WriteData)
	default:
		return f, 0, false
	}
	return f, tid, true
}

func zeroRespFields() Ev {
	return Ev{"fc": 0, "unit": 0, "addr": 0, "qty": 0, "data": []int{}, "id": []int{}, "status": 0, "extra": []int{}}
}

// respFields projects a parsed response; blen is the separately stored byte-length field (or -1).
func respFields(x any) (f Ev, tid int, blen int, ok bool) {
	f = zeroRespFields()
	blen = -1
	coil := func(b bool) int {
		if b {
			return 0xFF00
		}
		return 0
	}
	ok = true
	switch v := x.(type) {
	case *packet.ReadCoilsResponseTCP:
		f["fc"], f["unit"], f["data"] = 1, int(v.UnitID), ints(v.Data)
		tid, blen = int(v.TransactionID), int(v.CoilsByteLength)
	case *packet.ReadCoilsResponseRTU:
		f["fc"], f["unit"], f["data"] = 1, int(v.UnitID), ints(v.Data)
		blen = int(v.CoilsByteLength)
	case *packet.ReadDiscreteInputsResponseTCP:
		f["fc"], f["unit"], f["data"] = 2, int(v.UnitID), ints(v.Data)
		tid, blen = int(v.TransactionID), int(v.InputsByteLength)
	case *packet.ReadDiscreteInputsResponseRTU:
		f["fc"], f["unit"], f["data"] = 2, int(v.UnitID), ints(v.Data)
		blen = int(v.InputsByteLength)
	case *packet.ReadHoldingRegistersResponseTCP:
		f["fc"], f["unit"], f["data"] = 3, int(v.UnitID), ints(v.Data)
		tid, blen = int(v.TransactionID), int(v.RegisterByteLen)
	case *packet.ReadHoldingRegistersResponseRTU:
		f["fc"], f["unit"], f["data"] = 3, int(v.UnitID), ints(v.Data)
		blen = int(v.RegisterByteLen)
	case *packet.ReadInputRegistersResponseTCP:
		f["fc"], f["unit"], f["data"] = 4, int(v.UnitID), ints(v.Data)
		tid, blen = int(v.TransactionID), int(v.RegisterByteLen)
	case *packet.ReadInputRegistersResponseRTU:
		f["fc"], f["unit"], f["data"] = 4, int(v.UnitID), ints(v.Data)
		blen = int(v.RegisterByteLen)
	case *packet.ReadWriteMultipleRegistersResponseTCP:
		f["fc"], f["unit"], f["data"] = 23, int(v.UnitID), ints(v.Data)
		tid, blen = int(v.TransactionID), int(v.RegisterByteLen)
	case *packet.ReadWriteMultipleRegistersResponseRTU:
		f["fc"], f["unit"], f["data"] = 23, int(v.UnitID), ints(v.Data)
		blen = int(v.RegisterByteLen)
	case *packet.WriteSingleCoilResponseTCP:
		f["fc"], f["unit"], f["addr"], f["qty"] = 5, int(v.UnitID), int(v.StartAddress), coil(v.CoilState)
		tid = int(v.TransactionID)
	case *packet.WriteSingleCoilResponseRTU:
		f["fc"], f["unit"], f["addr"], f["qty"] = 5, int(v.UnitID), int(v.StartAddress), coil(v.CoilState)
	case *packet.WriteSingleRegisterResponseTCP:
		f["fc"], f["unit"], f["addr"], f["data"] = 6, int(v.UnitID), int(v.Address), ints(v.Data[:])
		tid = int(v.TransactionID)
	case *packet.WriteSingleRegisterResponseRTU:
		f["fc"], f["unit"], f["addr"], f["data"] = 6, int(v.UnitID), int(v.Address), ints(v.Data[:])
	case *packet.WriteMultipleCoilsResponseTCP:
		f["fc"], f["unit"], f["addr"], f["qty"] = 15, int(v.UnitID), int(v.StartAddress), int(v.CoilCount)
		tid = int(v.TransactionID)
	case *packet.WriteMultipleCoilsResponseRTU:
		f["fc"], f["unit"], f["addr"], f["qty"] = 15, int(v.UnitID), int(v.StartAddress), int(v.CoilCount)
	case *packet.WriteMultipleRegistersResponseTCP:
		f["fc"], f["unit"], f["addr"], f["qty"] = 16, int(v.UnitID), int(v.StartAddress), int(v.RegisterCount)
		tid = int(v.TransactionID)
	case *packet.WriteMultipleRegistersResponseRTU:
		f["fc"], f["unit"], f["addr"], f["qty"] = 16, int(v.UnitID), int(v.StartAddress), int(v.RegisterCount)
	case *packet.ReadServerIDResponseTCP:
		f["fc"], f["unit"], f["id"], f["status"], f["extra"] = 17, int(v.UnitID), ints(v.ServerID), int(v.Status), ints(v.AdditionalData)
		tid = int(v.TransactionID)
	case *packet.ReadServerIDResponseRTU:
		f["fc"], f["unit"], f["id"], f["status"], f["extra"] = 17, int(v.UnitID), ints(v.ServerID), int(v.Status), ints(v.AdditionalData)
	default:
		ok = false
	}
	return
}

type parseFn func([]byte) (any, error)

func wrapP[T any](f func([]byte) (T, error)) parseFn {
	return func(b []byte) (any, error) {
		v, err := f(b)
		return v, err
	}
}

// every exported parsing entry point of the packet package
var entries = map[string]parseFn{
	"ParseTCPRequest":                            wrapP(packet.ParseTCPRequest),
	"ParseRTURequest":                            wrapP(packet.ParseRTURequest),
	"ParseRTURequestWithCRC":                     wrapP(packet.ParseRTURequestWithCRC),
	"ParseTCPResponse":                           wrapP(packet.ParseTCPResponse),
	"ParseRTUResponse":                           wrapP(packet.ParseRTUResponse),
	"ParseRTUResponseWithCRC":                    wrapP(packet.ParseRTUResponseWithCRC),
	"ParseReadCoilsRequestTCP":                   wrapP(packet.ParseReadCoilsRequestTCP),
	"ParseReadCoilsRequestRTU":                   wrapP(packet.ParseReadCoilsRequestRTU),
	"ParseReadDiscreteInputsRequestTCP":          wrapP(packet.ParseReadDiscreteInputsRequestTCP),
	"ParseReadDiscreteInputsRequestRTU":          wrapP(packet.ParseReadDiscreteInputsRequestRTU),
	"ParseReadHoldingRegistersRequestTCP":        wrapP(packet.ParseReadHoldingRegistersRequestTCP),
	"ParseReadHoldingRegistersRequestRTU":        wrapP(packet.ParseReadHoldingRegistersRequestRTU),
	"ParseReadInputRegistersRequestTCP":          wrapP(packet.ParseReadInputRegistersRequestTCP),
	"ParseReadInputRegistersRequestRTU":          wrapP(packet.ParseReadInputRegistersRequestRTU),
	"ParseWriteSingleCoilRequestTCP":             wrapP(packet.ParseWriteSingleCoilRequestTCP),
	"ParseWriteSingleCoilRequestRTU":             wrapP(packet.ParseWriteSingleCoilRequestRTU),
	"ParseWriteSingleRegisterRequestTCP":         wrapP(packet.ParseWriteSingleRegisterRequestTCP),
	"ParseWriteSingleRegisterRequestRTU":         wrapP(packet.ParseWriteSingleRegisterRequestRTU),
	"ParseWriteMultipleCoilsRequestTCP":          wrapP(packet.ParseWriteMultipleCoilsRequestTCP),
	"ParseWriteMultipleCoilsRequestRTU":          wrapP(packet.ParseWriteMultipleCoilsRequestRTU),
	"ParseWriteMultipleRegistersRequestTCP":      wrapP(packet.ParseWriteMultipleRegistersRequestTCP),
	"ParseWriteMultipleRegistersRequestRTU":      wrapP(packet.ParseWriteMultipleRegistersRequestRTU),
	"ParseReadServerIDRequestTCP":                wrapP(packet.ParseReadServerIDRequestTCP),
	"ParseReadServerIDRequestRTU":                wrapP(packet.ParseReadServerIDRequestRTU),
	"ParseReadWriteMultipleRegistersRequestTCP":  wrapP(packet.ParseReadWriteMultipleRegistersRequestTCP),
	"ParseReadWriteMultipleRegistersRequestRTU":  wrapP(packet.ParseReadWriteMultipleRegistersRequestRTU),
	"ParseReadCoilsResponseTCP":                  wrapP(packet.ParseReadCoilsResponseTCP),
	"ParseReadCoilsResponseRTU":                  wrapP(packet.ParseReadCoilsResponseRTU),
	"ParseReadDiscreteInputsResponseTCP":         wrapP(packet.ParseReadDiscreteInputsResponseTCP),
	"ParseReadDiscreteInputsResponseRTU":         wrapP(packet.ParseReadDiscreteInputsResponseRTU),
	"ParseReadHoldingRegistersResponseTCP":       wrapP(packet.ParseReadHoldingRegistersResponseTCP),
	"ParseReadHoldingRegistersResponseRTU":       wrapP(packet.ParseReadHoldingRegistersResponseRTU),
	"ParseReadInputRegistersResponseTCP":         wrapP(packet.ParseReadInputRegistersResponseTCP),
	"ParseReadInputRegistersResponseRTU":         wrapP(packet.ParseReadInputRegistersResponseRTU),
	"ParseWriteSingleCoilResponseTCP":            wrapP(packet.ParseWriteSingleCoilResponseTCP),
	"ParseWriteSingleCoilResponseRTU":            wrapP(packet.ParseWriteSingleCoilResponseRTU),
	"ParseWriteSingleRegisterResponseTCP":        wrapP(packet.ParseWriteSingleRegisterResponseTCP),
	"ParseWriteSingleRegisterResponseRTU":        wrapP(packet.ParseWriteSingleRegisterResponseRTU),
	"ParseWriteMultipleCoilsResponseTCP":         wrapP(packet.ParseWriteMultipleCoilsResponseTCP),
	"ParseWriteMultipleCoilsResponseRTU":         wrapP(packet.ParseWriteMultipleCoilsResponseRTU),
	"ParseWriteMultipleRegistersResponseTCP":     wrapP(packet.ParseWriteMultipleRegistersResponseTCP),
	"ParseWriteMultipleRegistersResponseRTU":     wrapP(packet.ParseWriteMultipleRegistersResponseRTU),
	"ParseReadServerIDResponseTCP":               wrapP(packet.ParseReadServerIDResponseTCP),
	"ParseReadServerIDResponseRTU":               wrapP(packet.ParseReadServerIDResponseRTU),
	"ParseReadWriteMultipleRegistersResponseTCP": wrapP(packet.ParseReadWriteMultipleRegistersResponseTCP),
	"ParseReadWriteMultipleRegistersResponseRTU": wrapP(packet.ParseReadWriteMultipleRegistersResponseRTU),
	// value-returning entry points: checked for totality and capacity independence only
	"ParseMBAPHeader": func(b []byte) (any, error) {
		h, err := packet.ParseMBAPHeader(b)
		if err != nil {
			return nil, err
		}
		return h, nil
	},
	"LooksLikeModbusTCP": func(b []byte) (any, error) {
		n, err := packet.LooksLikeModbusTCP(b, false)
		if err != nil {
			return nil, fmt.Errorf("n=%d %w", n, err)
		}
		return n, nil
	},
	"LooksLikeModbusTCPAllow": func(b []byte) (any, error) {
		n, err := packet.LooksLikeModbusTCP(b, true)
		if err != nil {
			return nil, fmt.Errorf("n=%d %w", n, err)
		}
		return n, nil
	},
	// the server's stream assembler fed one read (a fresh assembler per call): classifier + dispatcher + error reply
	"AssemblerReceiveRead": func(b []byte) (any, error) {
		asm := &server.ModbusTCPAssembler{Handler: refusingHandler{}}
		out, closeConn := asm.ReceiveRead(context.Background(), b, len(b))
		return fmt.Sprintf("%v/%v", out, closeConn), nil
	},
	// the recognisers return an error only: "no error" is their decoded value (not an exception frame)
	"AsTCPErrorPacket": func(b []byte) (any, error) {
		if err := packet.AsTCPErrorPacket(b); err != nil {
			return nil, err
		}
		return "not-an-exception-frame", nil
	},
	"AsRTUErrorPacket": func(b []byte) (any, error) {
		if err := packet.AsRTUErrorPacket(b); err != nil {
			return nil, err
		}
		return "not-an-exception-frame", nil
	},
}

type refusingHandler struct{}

func (refusingHandler) Handle(ctx context.Context, received packet.Request) (packet.Response, error) {
	return nil, errors.New("verif: refused")
}

func isNilValue(v any) bool {
	if v == nil {
		return true
	}
	rv := reflect.ValueOf(v)
	switch rv.Kind() {
	case reflect.Ptr, reflect.Interface, reflect.Slice, reflect.Map, reflect.Func, reflect.Chan:
		return rv.IsNil()
	}
	return false
}

type callResult struct {
	outcome string // ok | err | panic
	v       any
	err     error
	panicV  string
}

func safeCall(f parseFn, b []byte) (r callResult) {
	defer func() {
		if p := recover(); p != nil {
			r = callResult{outcome: "panic", panicV: fmt.Sprint(p)}
		}
	}()
	v, err := f(b)
	if err != nil {
		// an error value must be usable: a nil pointer wrapped in the error interface (err != nil, but every
		// inspection of it blows up) is recorded as what it does to the caller - a panic
		if rv := reflect.ValueOf(err); rv.Kind() == reflect.Ptr && rv.IsNil() {
			return callResult{outcome: "panic", panicV: fmt.Sprintf("error value is a nil %T: unusable", err)}
		}
		_ = err.Error()
		return callResult{outcome: "err", v: v, err: err}
	}
	return callResult{outcome: "ok", v: v}
}

func render(r callResult) string {
	switch r.outcome {
	case "panic":
		return "panic"
	case "err":
		e := Ev{}
		errInfo(r.err, e)
		return "err:" + r.err.Error() + fmt.Sprintf("|%v|%v|%v", e["errType"], e["errPkt"], isNilValue(r.v))
	}
	return "ok:" + fmt.Sprintf("%#v", derefAny(r.v))
}

func derefAny(v any) any {
	if v == nil {
		return nil
	}
	rv := reflect.ValueOf(v)
	if rv.Kind() == reflect.Ptr && !rv.IsNil() {
		return rv.Elem().Interface()
	}
	return v
}

// exactCopy returns a copy with cap == len
func exactCopy(b []byte) []byte {
	c := make([]byte, len(b))
	copy(c, b)
	return c[:len(b):len(b)]
}

// withTail returns b as a prefix of a larger buffer whose spare capacity holds tail
func withTail(b []byte, tail []byte) []byte {
	buf := make([]byte, len(b)+len(tail))
	copy(buf, b)
	copy(buf[len(b):], tail)
	return buf[:len(b)]
}

func errInfo(err error, e Ev) {
	e["excIs"], e["excUnit"], e["excFc"], e["excCode"] = 0, 0, 0, 0
	e["errCRC"] = 0
	e["errPkt"] = []int{}
	e["errType"] = ""
	if err == nil {
		return
	}
	e["errType"] = "other"
	if errors.Is(err, packet.ErrInvalidCRC) {
		e["errCRC"] = 1
	}
	var et *packet.ErrorResponseTCP
	var er *packet.ErrorResponseRTU
	var pt *packet.ErrorParseTCP
	var pr *packet.ErrorParseRTU
	switch {
	case errors.As(err, &et):
		e["excIs"], e["excUnit"], e["excFc"], e["excCode"] = 1, int(et.UnitID), int(et.Function), int(et.Code)
		e["errType"] = "ErrorResponseTCP"
		e["excTid"] = int(et.TransactionID)
		e["errPkt"] = ints(et.Bytes())
	case errors.As(err, &er):
		e["excIs"], e["excUnit"], e["excFc"], e["excCode"] = 1, int(er.UnitID), int(er.Function), int(er.Code)
		e["errType"] = "ErrorResponseRTU"
		e["errPkt"] = ints(er.Bytes())
	case errors.As(err, &pt):
		e["errType"] = "ErrorParseTCP"
		e["errPkt"] = ints(pt.Bytes())
	case errors.As(err, &pr):
		e["errType"] = "ErrorParseRTU"
		e["errPkt"] = ints(pr.Bytes())
	}
}

func driveCodec(w *writer) error {
	rng := rand.New(rand.NewSource(flagSeed))
	return readCases(flagIn, func(line []byte) error {
		var c codecCase
		if err := json.Unmarshal(line, &c); err != nil {
			return fmt.Errorf("bad case %s: %w", string(line[:min(len(line), 200)]), err)
		}
		switch c.Op {
		case "newreq":
			w.emit(doNewReq(&c))
		case "sweep_newreq":
			sweepNewReq(w, &c, rng)
		case "sweep_explen":
			// the response length each accepted request reports (what the clients' read loops stop at)
			for q := c.From; q <= c.To; q++ {
				cc := c
				cc.Qty = q
				cc.Op = "newreq"
				if c.Fc == 23 {
					cc.Data = []int{0, 1}
				}
				e := doNewReq(&cc)
				if e["accepted"].(bool) {
					e["op"] = "explen"
					delete(e, "bytes")
					w.emit(e)
				}
			}
		case "parseresp":
			w.emit(doParse(&c, true))
		case "parsereq":
			w.emit(doParse(&c, false))
		case "sweep_parsereq":
			sweepParseReq(w, &c)
		case "parseany":
			w.emit(doParseAny(&c))
		case "fuzz_parseany":
			fuzzParseAny(w, &c, rng)
		case "classify":
			w.emit(doClassify(&c))
		case "sweep_classify":
			sweepClassify(w, &c)
		case "sweep_proto":
			// every non-zero protocol identifier on an otherwise legal header: the ids that were NOT refused as "not Modbus"
			for _, fc := range []int{3, 16, 100} {
				acc := []int{}
				for proto := 1; proto < 65536; proto++ {
					hdr := []int{0x12, 0x34, proto >> 8, proto & 0xFF, 0, 6, 0x11, fc, 0, 1, 0, 1}
					cc := codecCase{Frame: hdr, Allow: c.Allow, Tag: "hdr"}
					if e := doClassify(&cc); e["kind"] != "not" && len(acc) < 50 {
						acc = append(acc, proto)
					}
				}
				w.emit(Ev{"op": "protosweep", "fc": fc, "allow": c.Allow, "accepted": acc})
			}
		case "crc":
			w.emit(Ev{"op": "crc", "msg": c.Msg, "out": int(packet.CRC16(bytesOf(c.Msg)))})
		case "rand_crc":
			for i := 0; i < c.N; i++ {
				m := make([]byte, c.Len)
				rng.Read(m)
				w.emit(Ev{"op": "crc", "msg": ints(m), "out": int(packet.CRC16(m))})
			}
		case "crcsweep":
			w.emit(doCRCSweep(&c))
		case "coil":
			w.emit(doCoil(&c))
		case "trailer":
			doTrailer(w, &c)
		case "coilextract":
			w.emit(doCoilExtract(&c))
		case "emitexc":
			w.emit(doEmitExc(&c))
		case "coilroundtrip":
			w.emit(doCoilRoundTrip(&c))
			w.emit(doCoilDevice(&c))
		default:
			return fmt.Errorf("unknown codec op %q", c.Op)
		}
		return nil
	})
}

func min(a, b int) int {
	if a < b {
		return a
	}
	return b
}

func doNewReq(c *codecCase) Ev {
	e := Ev{"op": "newreq", "fc": c.Fc, "framing": c.Framing, "unit": c.Unit, "addr": c.Addr, "qty": c.Qty,
		"data": orEmpty(c.Data), "coils": orEmpty(c.Coils), "waddr": c.Waddr, "tid": 0, "accepted": false,
		"bytes": []int{}, "explen": 0, "panic": false, "bytes2": []int{}, "bytes3": []int{}, "prevThen": []int{}, "prevNow": []int{}, "bytesProto": []int{}, "bytesScr": []int{}}
	func() {
		defer func() {
			if p := recover(); p != nil {
				e["panic"] = true
			}
		}()
		r, err := newReq(c)
		if err != nil || r == nil {
			return
		}
		e["accepted"] = true
		if c.Framing == "tcp" {
			if c.Tid >= 0 {
				setTid(r, uint16(c.Tid))
			}
			_, tid, _ := reqFields(r)
			e["tid"] = tid
		}
		e["bytes"] = ints(r.Bytes())
		e["explen"] = r.ExpectedResponseLength()
		// a request is encoded as often as it is sent (retries): the second encoding, and the encoding of the PREVIOUS
		// request after this one was built, must be what they were; the caller's argument slices are reused meanwhile
		e["bytes2"] = ints(r.Bytes())
		// (the register-data constructors keep the caller's slice - pinned behaviour, not demanded otherwise; the coil
		// constructors pack the coils, so the caller's []bool may be reused)
		for i := range c.argCoils {
			c.argCoils[i] = !c.argCoils[i]
		}
		e["bytes3"] = ints(r.Bytes())
		if c.Framing == "tcp" {
			// the MBAP protocol identifier on the wire is 0 for Modbus, whatever the header struct's field holds
			if f := reflect.ValueOf(r); f.Kind() == reflect.Ptr {
				if pf := f.Elem().FieldByName("ProtocolID"); pf.IsValid() && pf.CanSet() {
					pf.SetUint(0x0102)
					e["bytesProto"] = ints(r.Bytes())
					pf.SetUint(0)
				}
			}
		}
		if lastReq != nil {
			e["prevThen"], e["prevNow"] = lastReqThen, ints(lastReq.Bytes())
		}
		lastReq, lastReqThen = r, e["bytes"].([]int)
		// a request's exported byte slices (and what CoilsToBytes returns) belong to the caller: a second request built
		// from the same arguments is overwritten field by field, and a THIRD one built afterwards must still encode the
		// arguments - an encoding is a function of the arguments, not of what happened to earlier packets
		if r0, err0 := newReq(c); err0 == nil && r0 != nil {
			scribble(reflect.ValueOf(r0))
			if c.Fc == 15 {
				b := packet.CoilsToBytes(coilsOf(c.Coils))
				for i := range b {
					b[i] ^= 0x0F // (not 0xFF: if this is the memory scribbled over above, the two must not cancel)
				}
			}
			if r1, err1 := newReq(c); err1 == nil && r1 != nil {
				if c.Framing == "tcp" {
					setTid(r1, uint16(e["tid"].(int)))
				}
				e["bytesScr"] = ints(r1.Bytes())
			}
		}
	}()
	return e
}

// scribble inverts every byte of every settable []byte field reachable from a packet value.
func scribble(v reflect.Value) {
	switch v.Kind() {
	case reflect.Ptr, reflect.Interface:
		if !v.IsNil() {
			scribble(v.Elem())
		}
	case reflect.Struct:
		for i := 0; i < v.NumField(); i++ {
			scribble(v.Field(i))
		}
	case reflect.Slice:
		if v.Type().Elem().Kind() == reflect.Uint8 && v.CanInterface() {
			b := v.Bytes()
			for i := range b {
				b[i] ^= 0xFF
			}
		}
	}
}

var lastReq packet.Request
var lastReqThen []int

func orEmpty(a []int) []int {
	if a == nil {
		return []int{}
	}
	return a
}

func fillData(pat string, n int, rng *rand.Rand) []int {
	d := make([]int, n)
	for i := range d {
		switch pat {
		case "zeros":
			d[i] = 0
		case "ones":
			d[i] = 0xFF
		case "ramp":
			d[i] = (i + 1) % 256
		case "alt":
			d[i] = 0xAA >> (i % 2)
		default:
			d[i] = rng.Intn(256)
		}
	}
	return d
}

// sweepNewReq: every value From..To of the swept axis.  Accepted requests are logged individually
// (the monitor validates each); rejected ones are only counted (C01 says nothing about refusals).
func sweepNewReq(w *writer, c *codecCase, rng *rand.Rand) {
	rejected := 0
	for q := c.From; q <= c.To; q++ {
		cc := *c
		cc.Op = "newreq"
		switch c.Fc {
		case 15:
			cc.Coils = make([]int, q)
			for i := range cc.Coils {
				switch c.Pat {
				case "ones":
					cc.Coils[i] = 1
				case "last":
					cc.Coils[i] = b2i(i == q-1)
				default:
					cc.Coils[i] = rng.Intn(2)
				}
			}
			cc.Qty = q
		case 16:
			cc.Data = fillData(c.Pat, 2*q, rng)
			cc.Qty = q
		case 23:
			if c.Tag == "read" {
				cc.Qty = q
			} else {
				cc.Data = fillData(c.Pat, 2*q, rng)
			}
		default:
			cc.Qty = q
		}
		e := doNewReq(&cc)
		if e["accepted"].(bool) || e["panic"].(bool) {
			w.emit(e)
		} else {
			rejected++
		}
	}
	w.emit(Ev{"op": "newreq_rejected", "fc": c.Fc, "framing": c.Framing, "from": c.From, "to": c.To, "count": rejected})
}

// the error of the previous exception frame (any entry) and what it encoded to when it was returned
var lastExcErr error
var lastExcThen []int
var lastExcFrame []int
var lastExcEntry string

func doParse(c *codecCase, isResp bool) Ev {
	op := "parsereq"
	if isResp {
		op = "parseresp"
	}
	e := Ev{"op": op, "entry": c.Entry, "frame": orEmpty(c.Frame), "outcome": "", "tid": 0, "blen": -1,
		"reenc": []int{}, "nilOnErr": true, "typeOK": true, "framing": c.Framing,
		"reencAfter": []int{}, "prevThen": []int{}, "prevNow": []int{}, "prevFrame": []int{}, "prevEntry": ""}
	if isResp {
		e["fields"] = zeroRespFields()
	} else {
		e["fields"] = zeroReqFields()
	}
	f, ok := entries[c.Entry]
	if !ok {
		e["outcome"] = "noentry"
		errInfo(nil, e)
		return e
	}
	in := exactCopy(bytesOf(c.Frame))
	r := safeCall(f, in)
	e["outcome"] = r.outcome
	errInfo(r.err, e)
	if isResp && e["excIs"] == 1 {
		// the typed exception error handed out for an EARLIER frame must still describe that frame
		if lastExcErr != nil {
			now := Ev{}
			errInfo(lastExcErr, now)
			e["prevThen"], e["prevNow"], e["prevFrame"], e["prevEntry"] = lastExcThen, now["errPkt"], lastExcFrame, lastExcEntry
		}
		lastExcErr, lastExcThen, lastExcFrame, lastExcEntry = r.err, e["errPkt"].([]int), orEmpty(c.Frame), c.Entry
	}
	switch r.outcome {
	case "err":
		e["nilOnErr"] = isNilValue(r.v)
	case "ok":
		if isResp {
			fl, tid, blen, known := respFields(r.v)
			e["fields"], e["tid"], e["blen"], e["typeOK"] = fl, tid, blen, known
			if known {
				func() {
					defer func() {
						if p := recover(); p != nil {
							e["outcome"] = "panic" // re-encoding the parsed value panicked
						}
					}()
					e["reenc"] = ints(r.v.(packet.Response).Bytes())
				}()
			}
		} else {
			fl, tid, known := reqFields(r.v)
			e["fields"], e["tid"], e["typeOK"] = fl, tid, known
			if known {
				func() {
					defer func() {
						if p := recover(); p != nil {
							e["outcome"] = "panic"
						}
					}()
					e["reenc"] = ints(r.v.(interface{ Bytes() []byte }).Bytes())
					// the caller reuses its receive buffer: the decoded request must not change with it
					for i := range in {
						in[i] ^= 0xFF
					}
					e["reencAfter"] = ints(r.v.(interface{ Bytes() []byte }).Bytes())
				}()
			}
		}
	}
	return e
}

// sweepParseReq: c.Frame is a request frame template, the 16-bit field at offset c.Start (0-based)
// is replaced by every value From..To (RTU: the CRC trailer is recomputed with the library's CRC16,
// which C03 validates separately).  ok outcomes are logged individually; error outcomes are logged
// as maximal ranges which the monitor checks against the legal interval.
func sweepParseReq(w *writer, c *codecCase) {
	f := entries[c.Entry]
	base := bytesOf(c.Frame)
	runStart := -1
	flush := func(end int) {
		if runStart >= 0 {
			w.emit(Ev{"op": "parsereq_errrange", "entry": c.Entry, "framing": c.Framing, "frame": c.Frame, "off": c.Start,
				"from": runStart, "to": end, "fc": c.Fc, "tag": c.Tag})
			runStart = -1
		}
	}
	for q := c.From; q <= c.To; q++ {
		b := exactCopy(base)
		b[c.Start] = byte(q >> 8)
		b[c.Start+1] = byte(q)
		if c.Framing == "rtu" && c.Tag != "nocrc" {
			crc := packet.CRC16(b[:len(b)-2])
			b[len(b)-2], b[len(b)-1] = byte(crc), byte(crc>>8)
		}
		r := safeCall(f, b)
		if r.outcome == "err" && isNilValue(r.v) {
			if runStart < 0 {
				runStart = q
			}
			continue
		}
		flush(q - 1)
		cc := *c
		cc.Frame = ints(b)
		w.emit(doParse(&cc, false))
	}
	flush(c.To)
}

func doParseAny(c *codecCase) Ev {
	e := Ev{"op": "parseany", "entry": c.Entry, "frame": orEmpty(c.Frame), "outcome": "", "nilOnErr": true, "nilOk": false, "capDep": false, "panicMsg": ""}
	f, ok := entries[c.Entry]
	if !ok {
		e["outcome"] = "noentry"
		return e
	}
	in := bytesOf(c.Frame)
	r0 := safeCall(f, exactCopy(in))
	e["outcome"] = r0.outcome
	e["panicMsg"] = r0.panicV
	if r0.outcome == "err" {
		e["nilOnErr"] = isNilValue(r0.v)
	}
	// "returns either a decoded value or an error": no error and no value is neither
	e["nilOk"] = r0.outcome == "ok" && isNilValue(r0.v)
	base := render(r0)
	tails := [][]byte{}
	if len(c.Tail) > 0 {
		tails = append(tails, bytesOf(c.Tail))
	}
	ff := make([]byte, 300)
	for i := range ff {
		ff[i] = 0xFF
	}
	tails = append(tails, ff, make([]byte, 300), []byte{0x00, 0x7d, 0x00, 0x01, 0x02, 0x00, 0x01, 0x00, 0x01, 0x02, 0x03, 0x04, 0x05, 0x06, 0x07, 0x08})
	for _, t := range tails {
		r := safeCall(f, withTail(in, t))
		if render(r) != base {
			e["capDep"] = true
			if r.outcome == "panic" && r0.outcome != "panic" {
				e["outcome"] = "panic"
				e["panicMsg"] = r.panicV
			}
		}
	}
	return e
}

var entryNames []string

func fuzzParseAny(w *writer, c *codecCase, rng *rand.Rand) {
	if entryNames == nil {
		for k := range entries {
			entryNames = append(entryNames, k)
		}
		sortStrings(entryNames)
	}
	base := bytesOf(c.Frame)
	for i := 0; i < c.N; i++ {
		var in []byte
		switch c.Tag {
		case "random":
			in = make([]byte, rng.Intn(c.Len+1))
			rng.Read(in)
		case "mutate":
			in = exactCopy(base)
			k := 1 + rng.Intn(3)
			for j := 0; j < k && len(in) > 0; j++ {
				switch rng.Intn(4) {
				case 0:
					in[rng.Intn(len(in))] ^= 1 << uint(rng.Intn(8))
				case 1:
					in[rng.Intn(len(in))] = byte(rng.Intn(256))
				case 2:
					in = in[:rng.Intn(len(in)+1)]
				case 3:
					p := rng.Intn(len(in) + 1)
					in = append(append(exactCopy(in[:p]), byte(rng.Intn(256))), in[p:]...)
				}
			}
		}
		names := entryNames
		if c.Entry != "" {
			names = []string{c.Entry}
		}
		for _, n := range names {
			cc := codecCase{Entry: n, Frame: ints(in)}
			e := doParseAny(&cc)
			// only non-conforming outcomes and a thin sample are logged in full; the rest is counted
			if e["outcome"] == "panic" || e["capDep"].(bool) || !e["nilOnErr"].(bool) || e["nilOk"].(bool) || rng.Intn(50) == 0 {
				w.emit(e)
			}
		}
	}
	w.emit(Ev{"op": "fuzz_done", "tag": c.Tag, "n": c.N, "entries": len(entryNames)})
}

func sortStrings(a []string) {
	for i := 1; i < len(a); i++ {
		for j := i; j > 0 && a[j] < a[j-1]; j-- {
			a[j], a[j-1] = a[j-1], a[j]
		}
	}
}

// the error object of the previous "unsupported function" classification and what it encoded to then
var lastUnsup *packet.ErrorParseTCP
var lastUnsupThen []int
var lastUnsupFrame []int

func doClassify(c *codecCase) Ev {
	e := Ev{"op": "classify", "frame": orEmpty(c.Frame), "allow": c.Allow, "n": 0, "kind": "", "excBytes": []int{}, "tag": c.Tag,
		"prevThen": []int{}, "prevNow": []int{}, "prevFrame": []int{}}
	func() {
		defer func() {
			if p := recover(); p != nil {
				e["kind"] = "panic"
			}
		}()
		n, err := packet.LooksLikeModbusTCP(exactCopy(bytesOf(c.Frame)), c.Allow)
		e["n"] = n
		var pt *packet.ErrorParseTCP
		switch {
		case err == nil:
			e["kind"] = "ok"
		case err == packet.ErrTCPDataTooShort:
			e["kind"] = "short"
		case err == packet.ErrIsNotTCPPacket:
			e["kind"] = "not"
		case errors.As(err, &pt):
			e["kind"] = "unsupported"
			e["excBytes"] = ints(pt.Bytes())
			if lastUnsup != nil {
				// the exception handed out for an EARLIER frame must still be the one for that frame
				e["prevThen"], e["prevNow"], e["prevFrame"] = lastUnsupThen, ints(lastUnsup.Bytes()), lastUnsupFrame
			}
			lastUnsup, lastUnsupThen, lastUnsupFrame = pt, ints(pt.Bytes()), orEmpty(c.Frame)
		default:
			e["kind"] = "othererr"
		}
	}()
	// agreement with the dispatcher: complete to n bytes (zero body) and parse
	e["disp"] = "na"
	e["dispPkt"] = []int{}
	if e["kind"] == "ok" && e["n"].(int) >= len(c.Frame) && e["n"].(int) <= 70000 {
		full := make([]byte, e["n"].(int))
		copy(full, bytesOf(c.Frame))
		r := safeCall(entries["ParseTCPRequest"], full)
		e["disp"] = r.outcome
		if r.outcome == "err" {
			var pt *packet.ErrorParseTCP
			if errors.As(r.err, &pt) {
				e["disp"] = "errtyped"
				e["dispPkt"] = ints(pt.Bytes())
			}
		}
	}
	return e
}

// sweepClassify: 8-byte headers, length field From..To x every function code; logs one event per
// header whose classification kind changes relative to the previous function code / length, plus a
// sample, plus every panic.  (The monitor validates each logged header individually.)
func sweepClassify(w *writer, c *codecCase) {
	for l := c.From; l <= c.To; l++ {
		for fc := 0; fc < 256; fc++ {
			hdr := []int{0x12, 0x34, c.Start >> 8, c.Start & 0xFF, l >> 8, l & 0xFF, 0x11, fc}
			cc := codecCase{Frame: hdr, Allow: c.Allow, Tag: "hdr"}
			w.emit(doClassify(&cc))
		}
	}
}

func doCRCSweep(c *codecCase) Ev {
	// Build, from the implementation itself, a 2-byte message m(s) with CRC16(m(s)) = s for every s.
	msgFor := make([][2]byte, 65536)
	seen := make([]bool, 65536)
	distinct := 0
	for a := 0; a < 256; a++ {
		for b := 0; b < 256; b++ {
			s := packet.CRC16([]byte{byte(a), byte(b)})
			if !seen[s] {
				seen[s] = true
				distinct++
				msgFor[s] = [2]byte{byte(a), byte(b)}
			}
		}
	}
	e := Ev{"op": "crcsweep", "distinct2": distinct, "init": int(packet.CRC16(nil)), "mismatches": 0, "pairs": 0,
		"firstS": -1, "firstB": -1, "firstGot": -1, "firstWant": -1}
	if distinct != 65536 || len(c.Table) != 256 {
		return e
	}
	mism, pairs := 0, 0
	m := make([]byte, 3)
	for s := 0; s < 65536; s++ {
		m[0], m[1] = msgFor[s][0], msgFor[s][1]
		for b := 0; b < 256; b++ {
			m[2] = byte(b)
			got := int(packet.CRC16(m))
			// TableStep(s,b) with the table TLC computed from the normative definition
			want := (s >> 8) ^ c.Table[(s^b)&0xFF]
			pairs++
			if got != want {
				if mism == 0 {
					e["firstS"], e["firstB"], e["firstGot"], e["firstWant"] = s, b, got, want
				}
				mism++
			}
		}
	}
	e["mismatches"], e["pairs"] = mism, pairs
	return e
}

func doCoil(c *codecCase) Ev {
	e := Ev{"op": "coil", "fc": c.Fc, "framing": c.Framing, "payload": orEmpty(c.Payload), "start": c.Start, "addr": c.Addr,
		"method": c.Method, "outcome": "", "value": 0, "lenDep": false}
	func() {
		defer func() {
			if p := recover(); p != nil {
				e["outcome"] = "panic"
			}
		}()
		data := withTail(bytesOf(c.Payload), []byte{0xFF, 0xFF, 0xFF, 0xFF})
		var v bool
		var err error
		switch {
		case c.Fc == 1:
			v, err = (&packet.ReadCoilsResponse{UnitID: 1, CoilsByteLength: uint8(len(data)), Data: data}).IsCoilSet(uint16(c.Start), uint16(c.Addr))
		case c.Method == "IsInputSet":
			v, err = (&packet.ReadDiscreteInputsResponse{UnitID: 1, InputsByteLength: uint8(len(data)), Data: data}).IsInputSet(uint16(c.Start), uint16(c.Addr))
		default:
			v, err = (&packet.ReadDiscreteInputsResponse{UnitID: 1, InputsByteLength: uint8(len(data)), Data: data}).IsCoilSet(uint16(c.Start), uint16(c.Addr))
		}
		if err != nil {
			e["outcome"] = "err"
		} else {
			e["outcome"] = "ok"
			e["value"] = b2i(v)
		}
		// the lookup is a function of the PAYLOAD: the redundant byte-length field of a hand-built response (left at
		// zero, or larger than the payload) must not change the answer
		for _, bl := range []uint8{0, 255} {
			var v2 bool
			var err2 error
			switch {
			case c.Fc == 1:
				v2, err2 = (&packet.ReadCoilsResponse{UnitID: 1, CoilsByteLength: bl, Data: data}).IsCoilSet(uint16(c.Start), uint16(c.Addr))
			case c.Method == "IsInputSet":
				v2, err2 = (&packet.ReadDiscreteInputsResponse{UnitID: 1, InputsByteLength: bl, Data: data}).IsInputSet(uint16(c.Start), uint16(c.Addr))
			default:
				v2, err2 = (&packet.ReadDiscreteInputsResponse{UnitID: 1, InputsByteLength: bl, Data: data}).IsCoilSet(uint16(c.Start), uint16(c.Addr))
			}
			if (err2 != nil) != (err != nil) || v2 != v {
				e["lenDep"] = true
			}
		}
	}()
	return e
}

// doTrailer: c.Frame is an RTU frame (with trailer); the trailer is replaced by each listed value
// (c.Data pairs lo,hi ... or, when c.Tag == "all", by all 65536 values) and given to the CRC-verifying
// entry point.  For "all" only the accepted trailers and the count of ErrInvalidCRC refusals are logged.
func doTrailer(w *writer, c *codecCase) {
	f := entries[c.Entry]
	base := bytesOf(c.Frame)
	n := len(base)
	if c.Tag == "all" {
		acc := []int{}
		crcErr, otherErr, panics := 0, 0, 0
		for t := 0; t < 65536; t++ {
			b := exactCopy(base)
			b[n-2], b[n-1] = byte(t), byte(t>>8)
			r := safeCall(f, b)
			switch {
			case r.outcome == "panic":
				panics++
			case r.outcome == "err" && errors.Is(r.err, packet.ErrInvalidCRC):
				crcErr++
			case r.outcome == "err":
				otherErr++
				acc = append(acc, t)
			default:
				acc = append(acc, t)
			}
		}
		w.emit(Ev{"op": "trailer_all", "entry": c.Entry, "frame": c.Frame, "notCRCErr": acc, "crcErr": crcErr, "otherErr": otherErr, "panics": panics})
		return
	}
	for i := 0; i+1 < len(c.Data); i += 2 {
		b := exactCopy(base)
		b[n-2], b[n-1] = byte(c.Data[i]), byte(c.Data[i+1])
		r := safeCall(f, b)
		w.emit(Ev{"op": "trailer", "entry": c.Entry, "frame": ints(b), "outcome": r.outcome,
			"errCRC": b2i(r.err != nil && errors.Is(r.err, packet.ErrInvalidCRC))})
	}
}

// doCoilExtract: builder-style extraction of coil fields from an FC1/FC2 response (BuilderRequest.ExtractFields)
func doCoilExtract(c *codecCase) Ev {
	e := Ev{"op": "coilextract", "fc": c.Fc, "payload": orEmpty(c.Payload), "start": c.Start, "addrs": orEmpty(c.Data), "outcome": "ok", "results": []Ev{}}
	func() {
		defer func() {
			if p := recover(); p != nil {
				e["outcome"] = "panic"
			}
		}()
		data := withTail(bytesOf(c.Payload), []byte{0xFF, 0xFF})
		fields := modbus.Fields{}
		for i, a := range c.Data {
			fields = append(fields, modbus.Field{Name: fmt.Sprintf("c%d", i), ServerAddress: "x:1", UnitID: 1, Address: uint16(a), Type: modbus.FieldTypeCoil})
		}
		br := modbus.BuilderRequest{StartAddress: uint16(c.Start), Fields: fields}
		var resp packet.Response
		if c.Fc == 1 {
			resp = &packet.ReadCoilsResponseTCP{ReadCoilsResponse: packet.ReadCoilsResponse{UnitID: 1, CoilsByteLength: uint8(len(data)), Data: data}}
		} else {
			resp = &packet.ReadDiscreteInputsResponseTCP{ReadDiscreteInputsResponse: packet.ReadDiscreteInputsResponse{UnitID: 1, InputsByteLength: uint8(len(data)), Data: data}}
		}
		// every other case hands the response over BY VALUE (as the repository's own builder tests do): a struct value
		// is a coil response just as a pointer to it is
		if len(c.Data)%2 == 1 {
			if c.Fc == 1 {
				resp = packet.ReadCoilsResponseTCP{ReadCoilsResponse: packet.ReadCoilsResponse{UnitID: 1, CoilsByteLength: uint8(len(data)), Data: data}}
			} else {
				resp = packet.ReadDiscreteInputsResponseTCP{ReadDiscreteInputsResponse: packet.ReadDiscreteInputsResponse{UnitID: 1, InputsByteLength: uint8(len(data)), Data: data}}
			}
		}
		vals, _ := br.ExtractFields(resp, true)
		res := []Ev{}
		for _, fv := range vals {
			r := Ev{"addr": int(fv.Field.Address), "outcome": "ok", "value": 0}
			if fv.Error != nil {
				r["outcome"] = "err"
			} else if b, ok := fv.Value.(bool); ok {
				r["value"] = b2i(b)
			} else {
				r["outcome"] = "badtype"
			}
			res = append(res, r)
		}
		e["results"] = res
	}()
	return e
}

// doCoilRoundTrip: write-multiple-coils request built by the library; a device that stores the request's
// coil bytes answers a read of the same range with exactly those bytes; every coil is then looked up.
// doEmitExc: the RTU exception encoders (ErrorResponseRTU.Bytes, ErrorParseRTU.Bytes) for any unit / function / code
func doEmitExc(c *codecCase) Ev {
	e := Ev{"op": "emitexc", "unit": c.Unit, "fc": c.Fc, "code": c.Qty, "resp": []int{}, "parse": []int{}, "outcome": "ok"}
	func() {
		defer func() {
			if p := recover(); p != nil {
				e["outcome"] = "panic"
			}
		}()
		er := packet.ErrorResponseRTU{UnitID: uint8(c.Unit), Function: uint8(c.Fc), Code: uint8(c.Qty)}
		e["resp"] = ints(er.Bytes())
		ep := packet.NewErrorParseRTU(uint8(c.Qty), "verif")
		ep.Packet.UnitID, ep.Packet.Function = uint8(c.Unit), uint8(c.Fc)
		e["parse"] = ints(ep.Bytes())
	}()
	return e
}

func doCoilRoundTrip(c *codecCase) Ev {
	e := Ev{"op": "coilroundtrip", "framing": c.Framing, "start": c.Addr, "coils": orEmpty(c.Coils), "accepted": false, "bytes": []int{}, "got": []int{}, "outcome": "ok"}
	func() {
		defer func() {
			if p := recover(); p != nil {
				e["outcome"] = "panic"
			}
		}()
		cc := *c
		cc.Fc = 15
		r, err := newReq(&cc)
		if err != nil || r == nil {
			return
		}
		e["accepted"] = true
		e["bytes"] = ints(r.Bytes())
		f, _, _ := reqFields(r)
		stored := bytesOf(f["data"].([]int)) // what the device keeps: the request's packed coil bytes
		resp := packet.ReadCoilsResponse{UnitID: uint8(c.Unit), CoilsByteLength: uint8(len(stored)), Data: stored}
		got := []int{}
		for i := range c.Coils {
			v, err := resp.IsCoilSet(uint16(c.Addr), uint16(c.Addr+i))
			if err != nil {
				got = append(got, 2)
			} else {
				got = append(got, b2i(v))
			}
		}
		e["got"] = got
	}()
	return e
}
