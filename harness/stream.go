package main

import (
	"context"
	"encoding/json"
	"errors"
	"fmt"
	"io"
	"net"
	"os"
	"sync"
	"time"

	"github.com/aldas/go-modbus-client/packet"
	"github.com/aldas/go-modbus-client/server"
)

type streamCase struct {
	Op      string  `json:"op"`
	Frames  [][]int `json:"frames"`
	Segs    []int   `json:"segs"`
	Handler string  `json:"handler"`
	E2E     bool    `json:"e2e"`
	// op "conns": several connections to one server, reads interleaved as the schedule says
	Streams [][][]int  `json:"streams"`
	Steps   []connStep `json:"steps"`
	Burst   int        `json:"burst"` // > 0: no schedule, every connection sends its whole stream at once, Burst rounds
	// Defaults: the server keeps its default error callback (OnErrorFunc unset)
	Defaults bool `json:"defaults"`
	// Slow: the handler takes 120 ms, the server's write timeout is 60 ms
	Slow bool `json:"slow"`
	// DlRead: the server's side of the connection returns data TOGETHER with the read-deadline error
	DlRead bool `json:"dlread"`
	raw    []byte
}

type connStep struct {
	A string `json:"a"` // read | leave
	C int    `json:"c"`
	N int    `json:"n"`
}

// one error VALUE shared by every call of the handler (a package-level sentinel, as handlers commonly have)
var sharedHandlerErr = packet.NewErrorParseTCP(packet.ErrServerFailure, "verif: shared handler error")

// devHandler is the device of ServerStream.tla (registers hold their own address, coil a is set iff
// a mod 3 = 0, FC17 id 01 02 / status FF / extra 03) or one of the faulty handler behaviours.
type devHandler struct {
	kind string
	slow time.Duration // the handler takes this long before it answers
}

func (h *devHandler) Handle(ctx context.Context, received packet.Request) (packet.Response, error) {
	if h.slow > 0 {
		time.Sleep(h.slow)
	}
	switch h.kind {
	case "errTyped":
		return nil, packet.NewErrorParseTCP(packet.ErrServerFailure, "verif: typed handler error")
	case "errShared":
		return nil, sharedHandlerErr
	case "errRelayed":
		// a typed error that was filled in for ANOTHER frame (a gateway handing on what a downstream parse returned):
		// transaction id 0xABCD, unit 9, function 4, quantity 0 -> exception 03 with that frame's addressing
		_, err := packet.ParseTCPRequest([]byte{0xAB, 0xCD, 0, 0, 0, 6, 9, 4, 0, 1, 0, 0})
		if err == nil {
			err = errors.New("verif: downstream frame unexpectedly accepted")
		}
		return nil, err
	case "errGeneric":
		return nil, errors.New("verif: generic handler error")
	case "panic":
		panic("verif: handler panic")
	case "nil":
		return nil, nil
	}
	regs := func(addr, qty uint16) []byte {
		d := make([]byte, 0, 2*int(qty))
		for i := 0; i < int(qty); i++ {
			a := uint16(int(addr) + i)
			d = append(d, byte(a>>8), byte(a))
		}
		return d
	}
	coils := func(addr, qty uint16) []byte {
		c := make([]bool, qty)
		for i := range c {
			c[i] = uint16(int(addr)+i)%3 == 0
		}
		return packet.CoilsToBytes(c)
	}
	switch r := received.(type) {
	case *packet.ReadCoilsRequestTCP:
		d := coils(r.StartAddress, r.Quantity)
		return &packet.ReadCoilsResponseTCP{MBAPHeader: r.MBAPHeader, ReadCoilsResponse: packet.ReadCoilsResponse{UnitID: r.UnitID, CoilsByteLength: uint8(len(d)), Data: d}}, nil
	case *packet.ReadDiscreteInputsRequestTCP:
		d := coils(r.StartAddress, r.Quantity)
		return &packet.ReadDiscreteInputsResponseTCP{MBAPHeader: r.MBAPHeader, ReadDiscreteInputsResponse: packet.ReadDiscreteInputsResponse{UnitID: r.UnitID, InputsByteLength: uint8(len(d)), Data: d}}, nil
	case *packet.ReadHoldingRegistersRequestTCP:
		d := regs(r.StartAddress, r.Quantity)
		return &packet.ReadHoldingRegistersResponseTCP{MBAPHeader: r.MBAPHeader, ReadHoldingRegistersResponse: packet.ReadHoldingRegistersResponse{UnitID: r.UnitID, RegisterByteLen: uint8(len(d)), Data: d}}, nil
	case *packet.ReadInputRegistersRequestTCP:
		d := regs(r.StartAddress, r.Quantity)
		return &packet.ReadInputRegistersResponseTCP{MBAPHeader: r.MBAPHeader, ReadInputRegistersResponse: packet.ReadInputRegistersResponse{UnitID: r.UnitID, RegisterByteLen: uint8(len(d)), Data: d}}, nil
	case *packet.ReadWriteMultipleRegistersRequestTCP:
		d := regs(r.ReadStartAddress, r.ReadQuantity)
		return &packet.ReadWriteMultipleRegistersResponseTCP{MBAPHeader: r.MBAPHeader, ReadWriteMultipleRegistersResponse: packet.ReadWriteMultipleRegistersResponse{UnitID: r.UnitID, RegisterByteLen: uint8(len(d)), Data: d}}, nil
	case *packet.WriteSingleCoilRequestTCP:
		return &packet.WriteSingleCoilResponseTCP{MBAPHeader: r.MBAPHeader, WriteSingleCoilResponse: packet.WriteSingleCoilResponse{UnitID: r.UnitID, StartAddress: r.Address, CoilState: r.CoilState}}, nil
	case *packet.WriteSingleRegisterRequestTCP:
		return &packet.WriteSingleRegisterResponseTCP{MBAPHeader: r.MBAPHeader, WriteSingleRegisterResponse: packet.WriteSingleRegisterResponse{UnitID: r.UnitID, Address: r.Address, Data: r.Data}}, nil
	case *packet.WriteMultipleCoilsRequestTCP:
		return &packet.WriteMultipleCoilsResponseTCP{MBAPHeader: r.MBAPHeader, WriteMultipleCoilsResponse: packet.WriteMultipleCoilsResponse{UnitID: r.UnitID, StartAddress: r.StartAddress, CoilCount: r.CoilCount}}, nil
	case *packet.WriteMultipleRegistersRequestTCP:
		return &packet.WriteMultipleRegistersResponseTCP{MBAPHeader: r.MBAPHeader, WriteMultipleRegistersResponse: packet.WriteMultipleRegistersResponse{UnitID: r.UnitID, StartAddress: r.StartAddress, RegisterCount: r.RegisterCount}}, nil
	case *packet.ReadServerIDRequestTCP:
		return &packet.ReadServerIDResponseTCP{MBAPHeader: r.MBAPHeader, ReadServerIDResponse: packet.ReadServerIDResponse{UnitID: r.UnitID, Status: 0xFF, ServerID: []byte{1, 2}, AdditionalData: []byte{3}}}, nil
	}
	return nil, fmt.Errorf("verif: device got a request of unexpected type %T", received)
}

func segments(c *streamCase) [][]byte {
	var all []byte
	for _, f := range c.Frames {
		all = append(all, bytesOf(f)...)
	}
	var segs [][]byte
	off := 0
	for _, n := range c.Segs {
		if off+n > len(all) {
			n = len(all) - off
		}
		segs = append(segs, all[off:off+n])
		off += n
	}
	if off < len(all) {
		segs = append(segs, all[off:])
	}
	return segs
}

// direct: (*ModbusTCPAssembler).ReceiveRead called segment by segment
func runStreamDirect(c *streamCase) []Ev {
	evs := []Ev{{"ev": "reset", "mode": "direct", "frames": c.Frames, "streams": [][][]int{c.Frames}, "handler": c.Handler}}
	asm := &server.ModbusTCPAssembler{Handler: &devHandler{kind: c.Handler}}
	buf := make([]byte, 300)
	for _, s := range segments(c) {
		// the server hands the assembler a window of its (reused) 300 byte read buffer
		for i := range buf {
			buf[i] = 0xEE
		}
		copy(buf, s)
		e := Ev{"ev": "segment", "conn": 1, "bytes": ints(s), "out": []int{}, "close": false, "panic": false, "stuck": false, "traced": []int{}, "tap": false}
		func() {
			defer func() {
				if p := recover(); p != nil {
					e["panic"] = true
				}
			}()
			out, cl := asm.ReceiveRead(context.Background(), buf[:len(s)], len(s))
			e["out"] = ints(out)
			e["close"] = cl
		}()
		evs = append(evs, e)
		if e["panic"].(bool) {
			break
		}
	}
	return evs
}

// in-memory listener: Accept hands out the server side of a net.Pipe
type pipeListener struct {
	ch     chan net.Conn
	closed chan struct{}
	once   sync.Once
	// failed: Accept returns an error nobody asked for (listener failure, E05)
	failed   chan struct{}
	failOnce sync.Once
	// wrap: applied to every connection handed to the server
	wrap func(net.Conn) net.Conn
}

// dlConn: a transport that hands over what it has together with the read-deadline error (io.Reader allows n > 0 with a
// non-nil error; a connection that gathers bytes until its deadline passes behaves like this)
type dlConn struct{ net.Conn }

func (c dlConn) Read(p []byte) (int, error) {
	n, err := c.Conn.Read(p)
	if n > 0 && err == nil {
		return n, os.ErrDeadlineExceeded
	}
	return n, err
}

func newPipeListener() *pipeListener {
	return &pipeListener{ch: make(chan net.Conn, 16), closed: make(chan struct{}), failed: make(chan struct{})}
}

var errListenerFailed = errors.New("verif: the listener failed")

// fail: the listener breaks although nobody closed it (Accept returns an error from now on)
func (l *pipeListener) fail() { l.failOnce.Do(func() { close(l.failed) }) }

func (l *pipeListener) Accept() (net.Conn, error) {
	select {
	case <-l.failed:
		return nil, errListenerFailed
	default:
	}
	select {
	case <-l.failed:
		return nil, errListenerFailed
	case c := <-l.ch:
		if l.wrap != nil {
			c = l.wrap(c)
		}
		return c, nil
	case <-l.closed:
		return nil, net.ErrClosed
	}
}
func (l *pipeListener) Close() error   { l.once.Do(func() { close(l.closed) }); return nil }
func (l *pipeListener) Addr() net.Addr { return &net.TCPAddr{IP: net.IPv4(127, 0, 0, 1), Port: 502} }
func (l *pipeListener) dial() (net.Conn, error) {
	a, _, err := l.dial2(nil)
	return a, err
}

// dial2 also returns the server's end; prepare runs on it before the server can see it
func (l *pipeListener) dial2(prepare func(serverSide net.Conn)) (net.Conn, net.Conn, error) {
	a, b := net.Pipe()
	if prepare != nil {
		prepare(b)
	}
	select {
	case l.ch <- b:
		return a, b, nil
	case <-l.failed:
		return nil, nil, errListenerFailed
	case <-l.closed:
		return nil, nil, net.ErrClosed
	case <-time.After(2 * time.Second):
		return nil, nil, errors.New("verif: accept did not happen")
	}
}

// tapAssembler wraps the library's assembler so the driver knows when a read has been processed
type tapAssembler struct {
	inner server.PacketAssembler
	done  chan tapResult
	// RawReadTracer: the bytes of every non-empty read the server reports (beyond the listed properties, check E04)
	tmu    sync.Mutex
	traced []byte
}

// Read makes the tap a server.RawReadTracer
func (t *tapAssembler) Read(data []byte, n int, err error) {
	if n > 0 {
		t.tmu.Lock()
		t.traced = append(t.traced, data[:n]...)
		t.tmu.Unlock()
	}
}
func (t *tapAssembler) takeTraced() []int {
	t.tmu.Lock()
	defer t.tmu.Unlock()
	out := ints(t.traced)
	t.traced = nil
	return out
}

type tapResult struct {
	n      int
	out    []byte
	closed bool
	pan    bool
}

func (t *tapAssembler) ReceiveRead(ctx context.Context, received []byte, bytesRead int) (response []byte, closeConnection bool) {
	res := tapResult{n: bytesRead, pan: true}
	defer func() { t.done <- res }()
	response, closeConnection = t.inner.ReceiveRead(ctx, received, bytesRead)
	res.out, res.closed, res.pan = append([]byte{}, response...), closeConnection, false
	return
}

// e2e: the same segments through server.Server over the in-memory listener; afterwards a second
// connection performs a plain FC3 exchange ("never disturbs other connections")
func runStreamE2E(c *streamCase) []Ev {
	evs := []Ev{{"ev": "reset", "mode": "e2e", "frames": c.Frames, "streams": [][][]int{c.Frames}, "handler": c.Handler, "slow": c.Slow, "defaults": c.Defaults, "dlread": c.DlRead}}
	ln := newPipeListener()
	if c.DlRead {
		ln.wrap = func(x net.Conn) net.Conn { return dlConn{x} }
	}
	taps := make(chan *tapAssembler, 4)
	first := true
	var fmu sync.Mutex
	onErr := func(err error) {}
	if c.Defaults {
		onErr = nil // the library's default: log the error
	}
	wTimeout, slow := 2*time.Second, time.Duration(0)
	if c.Slow {
		wTimeout, slow = 60*time.Millisecond, 120*time.Millisecond
	}
	srv := &server.Server{WriteTimeout: wTimeout, ReadTimeout: 2 * time.Millisecond,
		OnErrorFunc: onErr,
		AssemblerCreatorFunc: func(h server.ModbusHandler) server.PacketAssembler {
			fmu.Lock()
			defer fmu.Unlock()
			kind := "device"
			if first {
				kind = c.Handler
				first = false
			}
			t := &tapAssembler{inner: &server.ModbusTCPAssembler{Handler: &devHandler{kind: kind, slow: slow}}, done: make(chan tapResult, 16)}
			taps <- t
			return t
		}}
	ctx, cancel := context.WithCancel(context.Background())
	defer cancel()
	served := make(chan error, 1)
	go func() { served <- srv.Serve(ctx, ln, &devHandler{kind: "device"}) }()

	conn, err := ln.dial()
	if err != nil {
		return append(evs, Ev{"ev": "harness", "what": "dial failed: " + err.Error()})
	}
	tap := <-taps
	// drain everything the server sends
	var rmu sync.Mutex
	var got []byte
	eof := false
	go func() {
		b := make([]byte, 600)
		for {
			n, err := conn.Read(b)
			rmu.Lock()
			got = append(got, b[:n]...)
			if err != nil {
				eof = true
			}
			rmu.Unlock()
			if err != nil {
				return
			}
		}
	}()
	seen := 0
	unsynced := false
	for _, s := range segments(c) {
		e := Ev{"ev": "segment", "conn": 1, "bytes": ints(s), "out": []int{}, "close": false, "panic": false, "stuck": false, "traced": []int{}, "tap": false}
		conn.SetWriteDeadline(time.Now().Add(2 * time.Second))
		if _, err := conn.Write(s); err != nil {
			e["close"] = true
			evs = append(evs, e)
			break
		}
		var res tapResult
		gone, gotTap := false, false
		waitUntil := time.Now().Add(3 * time.Second)
		if unsynced {
			waitUntil = time.Now().Add(300 * time.Millisecond)
		}
	waitTap:
		for {
			select {
			case res = <-tap.done:
				gotTap = true
				break waitTap
			case <-time.After(2 * time.Millisecond):
				rmu.Lock()
				isEOF := eof
				rmu.Unlock()
				if isEOF {
					// the server closed the connection without handing the read to its assembler: an observation
					gone = true
					break waitTap
				}
				if time.Now().After(waitUntil) {
					// the server did not hand this read to its assembler (3 s; its read timeout is 2 ms): an
					// observation about the server, not driver trouble.  The driver goes on without that
					// synchronisation point: later segments are followed by a short fixed wait instead.
					unsynced = true
					break waitTap
				}
			}
		}
		if !gotTap && !gone {
			time.Sleep(20 * time.Millisecond)
			e["stuck"] = true
			rmu.Lock()
			e["out"] = ints(got[seen:])
			seen = len(got)
			e["close"] = eof
			rmu.Unlock()
			evs = append(evs, e)
			continue
		}
		if gone {
			rmu.Lock()
			e["out"] = ints(got[seen:])
			seen = len(got)
			rmu.Unlock()
			e["close"] = true
			evs = append(evs, e)
			break
		}
		e["panic"] = res.pan
		e["traced"], e["tap"] = tap.takeTraced(), true
		// what the client receives after this segment
		want := seen + len(res.out)
		deadline := time.Now().Add(2 * time.Second)
		for {
			rmu.Lock()
			n, isEOF := len(got), eof
			rmu.Unlock()
			if n >= want || isEOF || time.Now().After(deadline) {
				break
			}
			time.Sleep(100 * time.Microsecond)
		}
		time.Sleep(300 * time.Microsecond)
		rmu.Lock()
		e["out"] = ints(got[seen:])
		seen = len(got)
		e["close"] = eof
		rmu.Unlock()
		evs = append(evs, e)
		if res.pan {
			break
		}
	}
	// second connection
	ok := false
	if c2, err := ln.dial(); err == nil {
		req := []byte{0, 9, 0, 0, 0, 6, 1, 3, 0, 5, 0, 1}
		c2.SetDeadline(time.Now().Add(2 * time.Second))
		if _, err := c2.Write(req); err == nil {
			b := make([]byte, 11)
			if _, err := io.ReadFull(c2, b); err == nil {
				ok = string(b) == string([]byte{0, 9, 0, 0, 0, 5, 1, 3, 2, 0, 5})
			}
		}
		c2.Close()
	}
	evs = append(evs, Ev{"ev": "other", "ok": ok})
	conn.Close()
	cancel()
	ln.Close()
	select {
	case <-served:
	case <-time.After(2 * time.Second):
	}
	return evs
}

// ---- several connections to one server, the server's OWN assembler creation (op "conns") ----

// the server's hook points tell the driver when a read has been handled (conn.unmark) or the connection's
// goroutine has ended (conn.exit); events are routed by the server-side connection object
type connHookEv struct {
	point string
	n     int64
}

var connHooks sync.Map // net.Conn (server side) -> chan connHookEv

func streamHook(point string, conn net.Conn, n int64) {
	if conn == nil {
		return
	}
	if v, ok := connHooks.Load(conn); ok {
		switch point {
		case "conn.mark", "conn.wrote", "conn.writefail", "conn.unmark", "conn.exit":
			select {
			case v.(chan connHookEv) <- connHookEv{point, n}:
			default:
			}
		}
	}
}

type connPeer struct {
	id     int
	conn   net.Conn
	hook   chan connHookEv
	all    []byte
	off    int
	mu     sync.Mutex
	got    []byte
	eof    bool
	seen   int
	exited bool
	nosync bool
}

func (p *connPeer) reader() {
	b := make([]byte, 600)
	for {
		n, err := p.conn.Read(b)
		p.mu.Lock()
		p.got = append(p.got, b[:n]...)
		if err != nil {
			p.eof = true
		}
		p.mu.Unlock()
		if err != nil {
			return
		}
	}
}

// send writes the next n stream bytes and waits until the server has handled the read; returns the event
func (p *connPeer) send(n int) Ev {
	if p.off+n > len(p.all) {
		n = len(p.all) - p.off
	}
	s := p.all[p.off : p.off+n]
	p.off += n
	e := Ev{"ev": "segment", "conn": p.id, "bytes": ints(s), "out": []int{}, "close": false, "panic": false, "stuck": false, "traced": []int{}, "tap": false}
	if p.exited {
		e["close"] = true
		return e
	}
	p.conn.SetWriteDeadline(time.Now().Add(2 * time.Second))
	if _, err := p.conn.Write(s); err != nil {
		e["close"] = true
		return e
	}
	if p.nosync {
		// no hook to wait for (see below): give the server time, then take what has arrived / whether it hung up
		deadline := time.Now().Add(300 * time.Millisecond)
		for time.Now().Before(deadline) {
			p.mu.Lock()
			isEOF := p.eof
			p.mu.Unlock()
			if isEOF {
				break
			}
			time.Sleep(time.Millisecond)
		}
		p.collect(e, 0)
		return e
	}
	wrote := 0
	marked := false
	timeout := time.After(3 * time.Second)
wait:
	for {
		select {
		case h := <-p.hook:
			switch h.point {
			case "conn.mark":
				marked = true
			case "conn.wrote":
				wrote += int(h.n)
			case "conn.unmark":
				break wait
			case "conn.exit":
				p.exited = true
				break wait
			}
		case <-timeout:
			if marked {
				// the server took the read and marked the connection as being handled, but never came to the end of
				// its handling (3 s; the handler answers at once): an observation about the server, not driver trouble
				// The driver goes on without that synchronisation point: later reads on this connection are
				// followed by a fixed wait instead.
				e["stuck"] = true
				p.collect(e, wrote)
				p.nosync = true
				return e
			}
			return Ev{"ev": "harness", "what": "server did not handle the read"}
		}
	}
	p.collect(e, wrote)
	return e
}

// collect waits for `expect` more bytes (what the server says it wrote) and records what arrived
func (p *connPeer) collect(e Ev, expect int) {
	deadline := time.Now().Add(2 * time.Second)
	for {
		p.mu.Lock()
		n, isEOF := len(p.got), p.eof
		p.mu.Unlock()
		if n >= p.seen+expect || isEOF || time.Now().After(deadline) {
			break
		}
		time.Sleep(50 * time.Microsecond)
	}
	p.mu.Lock()
	e["out"] = ints(p.got[p.seen:])
	p.seen = len(p.got)
	e["close"] = p.eof
	p.mu.Unlock()
}

func runStreamConns(c *streamCase) []Ev {
	raw, _ := json.Marshal(c)
	evs := []Ev{{"ev": "reset", "mode": "conns", "frames": [][]int{}, "streams": c.Streams, "handler": c.Handler, "case": json.RawMessage(raw)}}
	ln := newPipeListener()
	srv := &server.Server{WriteTimeout: 2 * time.Second, ReadTimeout: 2 * time.Millisecond, OnErrorFunc: func(err error) {}}
	ctx, cancel := context.WithCancel(context.Background())
	defer cancel()
	served := make(chan error, 1)
	go func() { served <- srv.Serve(ctx, ln, &devHandler{kind: c.Handler}) }()
	var peers []*connPeer
	var servers []net.Conn
	for i, st := range c.Streams {
		p := &connPeer{id: i + 1, hook: make(chan connHookEv, 64)}
		for _, f := range st {
			p.all = append(p.all, bytesOf(f)...)
		}
		a, b, err := ln.dial2(func(b net.Conn) { connHooks.Store(b, p.hook) })
		if err != nil {
			return append(evs, Ev{"ev": "harness", "what": "dial failed: " + err.Error()})
		}
		p.conn = a
		servers = append(servers, b)
		go p.reader()
		peers = append(peers, p)
	}
	defer func() {
		for _, b := range servers {
			connHooks.Delete(b)
		}
	}()
	if c.Burst > 0 {
		// free running: every connection sends its whole stream at the same moment
		for round := 0; round < c.Burst; round++ {
			res := make([]Ev, len(peers))
			var wg sync.WaitGroup
			for i, p := range peers {
				wg.Add(1)
				go func(i int, p *connPeer) {
					defer wg.Done()
					p.off = 0
					res[i] = p.send(len(p.all))
				}(i, p)
			}
			wg.Wait()
			if round > 0 {
				// a new round is a repetition of the same streams: the monitor sees it as a new stream
				evs = append(evs, Ev{"ev": "reset", "mode": "conns", "frames": [][]int{}, "streams": c.Streams, "handler": c.Handler, "case": json.RawMessage(raw)})
			}
			evs = append(evs, res...)
		}
	} else {
		for _, st := range c.Steps {
			p := peers[st.C-1]
			switch st.A {
			case "read":
				evs = append(evs, p.send(st.N))
			case "leave":
				// whatever reached this client after its last read belongs to the stream too
				e := Ev{"ev": "segment", "conn": p.id, "bytes": []int{}, "out": []int{}, "close": false, "panic": false, "stuck": false, "traced": []int{}, "tap": false}
				p.collect(e, 0)
				evs = append(evs, e)
				p.conn.Close()
				evs = append(evs, Ev{"ev": "leave", "conn": p.id})
			}
		}
	}
	for _, p := range peers {
		p.conn.Close()
	}
	cancel()
	ln.Close()
	select {
	case <-served:
	case <-time.After(2 * time.Second):
	}
	return evs
}

func driveStream(w *writer) error {
	server.VerifHook = streamHook
	var cases []*streamCase
	err := readCases(flagIn, func(line []byte) error {
		c := &streamCase{}
		if err := json.Unmarshal(line, c); err != nil {
			return err
		}
		c.raw = append([]byte(nil), line...)
		cases = append(cases, c)
		return nil
	})
	if err != nil {
		return err
	}
	ch := make(chan *streamCase)
	var wg sync.WaitGroup
	for i := 0; i < 16; i++ {
		wg.Add(1)
		go func() {
			defer wg.Done()
			for c := range ch {
				id := watchStart(c.raw)
				if c.Op == "conns" {
					w.emitAll(runStreamConns(c))
				} else if c.E2E {
					w.emitAll(runStreamE2E(c))
				} else {
					w.emitAll(runStreamDirect(c))
				}
				watchEnd(id)
			}
		}()
	}
	for _, c := range cases {
		if flagMode == "e2e" && !c.E2E || flagMode == "direct" && c.E2E {
			continue
		}
		ch <- c
	}
	close(ch)
	wg.Wait()
	return nil
}
