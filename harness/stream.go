package main

import (
	"context"
	"encoding/json"
	"errors"
	"fmt"
	"io"
	"net"
	"sync"
	"time"

	"github.com/aldas/go-modbus-client/packet"
	"github.com/aldas/go-modbus-client/server"
)

type streamCase struct {
	Op      string  `json:"op"`
	Frames  [][]int `json:"frames"`
	Segs    []int   `json:"segs"`
	Handler string  `json:"handler"`
	E2E     bool    `json:"e2e"`
}

// devHandler is the device of ServerStream.tla (registers hold their own address, coil a is set iff
// a mod 3 = 0, FC17 id 01 02 / status FF / extra 03) or one of the faulty handler behaviours.
type devHandler struct{ kind string }

func (h *devHandler) Handle(ctx context.Context, received packet.Request) (packet.Response, error) {
	switch h.kind {
	case "errTyped":
		return nil, packet.NewErrorParseTCP(packet.ErrServerFailure, "verif: typed handler error")
	case "errGeneric":
		return nil, errors.New("verif: generic handler error")
	case "panic":
		panic("verif: handler panic")
	case "nil":
		return nil, nil
	}
	regs := func(addr, qty uint16) []byte {
		d := make([]byte, 0, 2*int(qty))
		for i := 0; i < int(qty); i++ {
			a := uint16(int(addr) + i)
			d = append(d, byte(a>>8), byte(a))
		}
		return d
	}
	coils := func(addr, qty uint16) []byte {
		c := make([]bool, qty)
		for i := range c {
			c[i] = uint16(int(addr)+i)%3 == 0
		}
		return packet.CoilsToBytes(c)
	}
	switch r := received.(type) {
	case *packet.ReadCoilsRequestTCP:
		d := coils(r.StartAddress, r.Quantity)
		return &packet.ReadCoilsResponseTCP{MBAPHeader: r.MBAPHeader, ReadCoilsResponse: packet.ReadCoilsResponse{UnitID: r.UnitID, CoilsByteLength: uint8(len(d)), Data: d}}, nil
	case *packet.ReadDiscreteInputsRequestTCP:
		d := coils(r.StartAddress, r.Quantity)
		return &packet.ReadDiscreteInputsResponseTCP{MBAPHeader: r.MBAPHeader, ReadDiscreteInputsResponse: packet.ReadDiscreteInputsResponse{UnitID: r.UnitID, InputsByteLength: uint8(len(d)), Data: d}}, nil
	case *packet.ReadHoldingRegistersRequestTCP:
		d := regs(r.StartAddress, r.Quantity)
		return &packet.ReadHoldingRegistersResponseTCP{MBAPHeader: r.MBAPHeader, ReadHoldingRegistersResponse: packet.ReadHoldingRegistersResponse{UnitID: r.UnitID, RegisterByteLen: uint8(len(d)), Data: d}}, nil
	case *packet.ReadInputRegistersRequestTCP:
		d := regs(r.StartAddress, r.Quantity)
		return &packet.ReadInputRegistersResponseTCP{MBAPHeader: r.MBAPHeader, ReadInputRegistersResponse: packet.ReadInputRegistersResponse{UnitID: r.UnitID, RegisterByteLen: uint8(len(d)), Data: d}}, nil
	case *packet.ReadWriteMultipleRegistersRequestTCP:
		d := regs(r.ReadStartAddress, r.ReadQuantity)
		return &packet.ReadWriteMultipleRegistersResponseTCP{MBAPHeader: r.MBAPHeader, ReadWriteMultipleRegistersResponse: packet.ReadWriteMultipleRegistersResponse{UnitID: r.UnitID, RegisterByteLen: uint8(len(d)), Data: d}}, nil
	case *packet.WriteSingleCoilRequestTCP:
		return &packet.WriteSingleCoilResponseTCP{MBAPHeader: r.MBAPHeader, WriteSingleCoilResponse: packet.WriteSingleCoilResponse{UnitID: r.UnitID, StartAddress: r.Address, CoilState: r.CoilState}}, nil
	case *packet.WriteSingleRegisterRequestTCP:
		return &packet.WriteSingleRegisterResponseTCP{MBAPHeader: r.MBAPHeader, WriteSingleRegisterResponse: packet.WriteSingleRegisterResponse{UnitID: r.UnitID, Address: r.Address, Data: r.Data}}, nil
	case *packet.WriteMultipleCoilsRequestTCP:
		return &packet.WriteMultipleCoilsResponseTCP{MBAPHeader: r.MBAPHeader, WriteMultipleCoilsResponse: packet.WriteMultipleCoilsResponse{UnitID: r.UnitID, StartAddress: r.StartAddress, CoilCount: r.CoilCount}}, nil
	case *packet.WriteMultipleRegistersRequestTCP:
		return &packet.WriteMultipleRegistersResponseTCP{MBAPHeader: r.MBAPHeader, WriteMultipleRegistersResponse: packet.WriteMultipleRegistersResponse{UnitID: r.UnitID, StartAddress: r.StartAddress, RegisterCount: r.RegisterCount}}, nil
	case *packet.ReadServerIDRequestTCP:
		return &packet.ReadServerIDResponseTCP{MBAPHeader: r.MBAPHeader, ReadServerIDResponse: packet.ReadServerIDResponse{UnitID: r.UnitID, Status: 0xFF, ServerID: []byte{1, 2}, AdditionalData: []byte{3}}}, nil
	}
	return nil, fmt.Errorf("verif: device got a request of unexpected type %T", received)
}

func segments(c *streamCase) [][]byte {
	var all []byte
	for _, f := range c.Frames {
		all = append(all, bytesOf(f)...)
	}
	var segs [][]byte
	off := 0
	for _, n := range c.Segs {
		if off+n > len(all) {
			n = len(all) - off
		}
		segs = append(segs, all[off:off+n])
		off += n
	}
	if off < len(all) {
		segs = append(segs, all[off:])
	}
	return segs
}

// direct: (*ModbusTCPAssembler).ReceiveRead called segment by segment
func runStreamDirect(c *streamCase) []Ev {
	evs := []Ev{{"ev": "reset", "mode": "direct", "frames": c.Frames, "handler": c.Handler}}
	asm := &server.ModbusTCPAssembler{Handler: &devHandler{kind: c.Handler}}
	buf := make([]byte, 300)
	for _, s := range segments(c) {
		// the server hands the assembler a window of its (reused) 300 byte read buffer
		for i := range buf {
			buf[i] = 0xEE
		}
		copy(buf, s)
		e := Ev{"ev": "segment", "bytes": ints(s), "out": []int{}, "close": false, "panic": false}
		func() {
			defer func() {
				if p := recover(); p != nil {
					e["panic"] = true
				}
			}()
			out, cl := asm.ReceiveRead(context.Background(), buf[:len(s)], len(s))
			e["out"] = ints(out)
			e["close"] = cl
		}()
		evs = append(evs, e)
		if e["panic"].(bool) {
			break
		}
	}
	return evs
}

// in-memory listener: Accept hands out the server side of a net.Pipe
type pipeListener struct {
	ch     chan net.Conn
	closed chan struct{}
	once   sync.Once
}

func newPipeListener() *pipeListener {
	return &pipeListener{ch: make(chan net.Conn, 16), closed: make(chan struct{})}
}
func (l *pipeListener) Accept() (net.Conn, error) {
	select {
	case c := <-l.ch:
		return c, nil
	case <-l.closed:
		return nil, net.ErrClosed
	}
}
func (l *pipeListener) Close() error   { l.once.Do(func() { close(l.closed) }); return nil }
func (l *pipeListener) Addr() net.Addr { return &net.TCPAddr{IP: net.IPv4(127, 0, 0, 1), Port: 502} }
func (l *pipeListener) dial() (net.Conn, error) {
	a, b := net.Pipe()
	select {
	case l.ch <- b:
		return a, nil
	case <-l.closed:
		return nil, net.ErrClosed
	case <-time.After(2 * time.Second):
		return nil, errors.New("verif: accept did not happen")
	}
}

// tapAssembler wraps the library's assembler so the driver knows when a read has been processed
type tapAssembler struct {
	inner server.PacketAssembler
	done  chan tapResult
}
type tapResult struct {
	n      int
	out    []byte
	closed bool
	pan    bool
}

func (t *tapAssembler) ReceiveRead(ctx context.Context, received []byte, bytesRead int) (response []byte, closeConnection bool) {
	res := tapResult{n: bytesRead, pan: true}
	defer func() { t.done <- res }()
	response, closeConnection = t.inner.ReceiveRead(ctx, received, bytesRead)
	res.out, res.closed, res.pan = append([]byte{}, response...), closeConnection, false
	return
}

// e2e: the same segments through server.Server over the in-memory listener; afterwards a second
// connection performs a plain FC3 exchange ("never disturbs other connections")
func runStreamE2E(c *streamCase) []Ev {
	evs := []Ev{{"ev": "reset", "mode": "e2e", "frames": c.Frames, "handler": c.Handler}}
	ln := newPipeListener()
	taps := make(chan *tapAssembler, 4)
	first := true
	var fmu sync.Mutex
	srv := &server.Server{WriteTimeout: 2 * time.Second, ReadTimeout: 2 * time.Millisecond,
		OnErrorFunc: func(err error) {},
		AssemblerCreatorFunc: func(h server.ModbusHandler) server.PacketAssembler {
			fmu.Lock()
			defer fmu.Unlock()
			kind := "device"
			if first {
				kind = c.Handler
				first = false
			}
			t := &tapAssembler{inner: &server.ModbusTCPAssembler{Handler: &devHandler{kind: kind}}, done: make(chan tapResult, 16)}
			taps <- t
			return t
		}}
	ctx, cancel := context.WithCancel(context.Background())
	defer cancel()
	served := make(chan error, 1)
	go func() { served <- srv.Serve(ctx, ln, &devHandler{kind: "device"}) }()

	conn, err := ln.dial()
	if err != nil {
		return append(evs, Ev{"ev": "harness", "what": "dial failed: " + err.Error()})
	}
	tap := <-taps
	// drain everything the server sends
	var rmu sync.Mutex
	var got []byte
	eof := false
	go func() {
		b := make([]byte, 600)
		for {
			n, err := conn.Read(b)
			rmu.Lock()
			got = append(got, b[:n]...)
			if err != nil {
				eof = true
			}
			rmu.Unlock()
			if err != nil {
				return
			}
		}
	}()
	seen := 0
	for _, s := range segments(c) {
		e := Ev{"ev": "segment", "bytes": ints(s), "out": []int{}, "close": false, "panic": false}
		conn.SetWriteDeadline(time.Now().Add(2 * time.Second))
		if _, err := conn.Write(s); err != nil {
			e["close"] = true
			evs = append(evs, e)
			break
		}
		var res tapResult
		select {
		case res = <-tap.done:
		case <-time.After(3 * time.Second):
			evs = append(evs, Ev{"ev": "harness", "what": "server did not process the read"})
			return evs
		}
		e["panic"] = res.pan
		// what the client receives after this segment
		want := seen + len(res.out)
		deadline := time.Now().Add(2 * time.Second)
		for {
			rmu.Lock()
			n, isEOF := len(got), eof
			rmu.Unlock()
			if n >= want || isEOF || time.Now().After(deadline) {
				break
			}
			time.Sleep(100 * time.Microsecond)
		}
		time.Sleep(300 * time.Microsecond)
		rmu.Lock()
		e["out"] = ints(got[seen:])
		seen = len(got)
		e["close"] = eof
		rmu.Unlock()
		evs = append(evs, e)
		if res.pan {
			break
		}
	}
	// second connection
	ok := false
	if c2, err := ln.dial(); err == nil {
		req := []byte{0, 9, 0, 0, 0, 6, 1, 3, 0, 5, 0, 1}
		c2.SetDeadline(time.Now().Add(2 * time.Second))
		if _, err := c2.Write(req); err == nil {
			b := make([]byte, 11)
			if _, err := io.ReadFull(c2, b); err == nil {
				ok = string(b) == string([]byte{0, 9, 0, 0, 0, 5, 1, 3, 2, 0, 5})
			}
		}
		c2.Close()
	}
	evs = append(evs, Ev{"ev": "other", "ok": ok})
	conn.Close()
	cancel()
	ln.Close()
	select {
	case <-served:
	case <-time.After(2 * time.Second):
	}
	return evs
}

func driveStream(w *writer) error {
	var cases []*streamCase
	err := readCases(flagIn, func(line []byte) error {
		c := &streamCase{}
		if err := json.Unmarshal(line, c); err != nil {
			return err
		}
		cases = append(cases, c)
		return nil
	})
	if err != nil {
		return err
	}
	ch := make(chan *streamCase)
	var wg sync.WaitGroup
	for i := 0; i < 16; i++ {
		wg.Add(1)
		go func() {
			defer wg.Done()
			for c := range ch {
				if c.E2E {
					w.emitAll(runStreamE2E(c))
				} else {
					w.emitAll(runStreamDirect(c))
				}
			}
		}()
	}
	for _, c := range cases {
		if flagMode == "e2e" && !c.E2E || flagMode == "direct" && c.E2E {
			continue
		}
		ch <- c
	}
	close(ch)
	wg.Wait()
	return nil
}
