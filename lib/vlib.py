"""Orchestration shared by all checks: scratch dirs, TLC runs, Go harness build/run,
trace validation sharding, known-findings matching, evidence writing.

Exit code contract (see DESIGN.md 2.2): 0 held / 1 confirmed unlisted violation / 2 infrastructure."""
import json, os, re, shutil, subprocess, sys, time, hashlib, concurrent.futures as cf

VERIF = os.path.dirname(os.path.dirname(os.path.abspath(__file__)))
REPO = os.environ.get("VERIF_REPO", "/repo")
SPEC = os.path.join(VERIF, "spec")
HARNESS = os.path.join(VERIF, "harness")
WORKROOT = os.path.join(VERIF, ".work")
TLAJAR = "/opt/veriftools/tla/tla2tools.jar:/opt/veriftools/tla/CommunityModules-deps.jar"
NCPU = os.cpu_count() or 4
MODULE = "github.com/aldas/go-modbus-client"


class Infra(Exception):
    """infrastructure trouble -> exit 2, never a violation"""


def log(*a):
    print(*a, flush=True)


def goenv():
    e = dict(os.environ)
    e.update(GOFLAGS="-mod=mod", GOPROXY="off", GOSUMDB="off", GOTOOLCHAIN="local")
    return e


def case_strings(stdout):
    """the JSON strings of <<"CASE", "..."> > tuples printed by a generator (robust against TLC's line wrapping)"""
    out = []
    for m in re.finditer(r'<<\s*"CASE",\s*("(?:[^"\\]|\\.)*")\s*>>', stdout):
        try:
            out.append(json.loads(m.group(1)))
        except Exception:
            raise Infra("unparsable CASE tuple: " + m.group(0)[:200])
    return out


class Run:
    """one invocation of a check: owns a scratch directory removed at exit"""

    def __init__(self, pid, tier, seed):
        self.pid, self.tier, self.seed = pid, tier, seed
        self.t0 = time.time()
        self.dir = os.path.join(WORKROOT, "%s-%s-%d" % (pid, tier, os.getpid()))
        shutil.rmtree(self.dir, ignore_errors=True)
        os.makedirs(self.dir)
        self.specdir = os.path.join(self.dir, "spec")
        shutil.copytree(SPEC, self.specdir)
        self.tlc_stats = {"states": 0, "transitions": 0, "runs": []}
        self.keep = os.environ.get("VERIF_KEEP") == "1"
        self._bin = None

    def cleanup(self):
        if not self.keep:
            shutil.rmtree(self.dir, ignore_errors=True)
            try:
                os.rmdir(WORKROOT)
            except OSError:
                pass

    def path(self, name):
        return os.path.join(self.dir, name)

    # ---------------------------------------------------------------- Go harness
    def build(self, race=False):
        """build the harness against REPO's current working tree with the verif tag"""
        key = "drive-race" if race else "drive"
        out = self.path(key)
        if os.path.exists(out):
            return out
        hdir = self.path("harness-src")
        if not os.path.exists(hdir):
            shutil.copytree(HARNESS, hdir)
            with open(os.path.join(hdir, "go.mod"), "w") as f:
                f.write("module verifharness\n\ngo 1.22\n\nrequire %s v0.0.0\n\nreplace %s => %s\n" % (MODULE, MODULE, REPO))
            shutil.copy(os.path.join(REPO, "go.sum"), os.path.join(hdir, "go.sum"))
        cmd = ["go", "build", "-tags", "verif", "-o", out]
        if race:
            cmd.insert(2, "-race")
        cmd.append(".")
        t = time.time()
        p = subprocess.run(cmd, cwd=hdir, env=goenv(), capture_output=True, text=True)
        if p.returncode != 0:
            # a library that does not compile is not a property violation
            raise Infra("harness build failed:\n" + p.stdout + p.stderr)
        log("[build] %s in %.1fs" % (key, time.time() - t))
        return out

    def drive(self, sub, cases_path, out_path, extra=None, race=False, timeout=3600, env=None):
        binp = self.build(race=race)
        cmd = [binp, sub, "-in", cases_path, "-out", out_path, "-seed", str(self.seed)]
        if extra:
            cmd += extra
        e = dict(os.environ)
        if env:
            e.update(env)
        t = time.time()
        try:
            p = subprocess.run(cmd, capture_output=True, text=True, timeout=timeout, env=e)
        except subprocess.TimeoutExpired:
            raise Infra("driver %s timed out after %ds" % (sub, timeout))
        if p.returncode != 0:
            raise Infra("driver %s exited %d:\n%s\n%s" % (sub, p.returncode, p.stdout[-4000:], p.stderr[-4000:]))
        log("[drive] %s: %s in %.1fs" % (sub, p.stdout.strip().splitlines()[-1] if p.stdout.strip() else "", time.time() - t))
        return p

    # ---------------------------------------------------------------- TLC
    def tlc(self, module, cfg, env=None, workers=1, timeout=1800, xmx="3g", extra=None, check=True, tag=None):
        """run TLC on spec/<module>.tla with spec/<cfg>; returns dict(stdout, prints, states, distinct, ok)"""
        tag = tag or (cfg.replace(".cfg", "") + "-" + hashlib.md5(json.dumps(env or {}, sort_keys=True).encode()).hexdigest()[:8])
        md = self.path("md-" + tag)
        e = dict(os.environ)
        e.pop("JAVA_TOOL_OPTIONS", None)
        if env:
            e.update({k: str(v) for k, v in env.items()})
        jt = self.path("jtmp")   # TLC leaves an empty tlc-<n> directory per run in java.io.tmpdir: keep them inside the work directory
        os.makedirs(jt, exist_ok=True)
        cmd = ["java", "-Xss512m", "-Xmx%s" % xmx, "-XX:+UseParallelGC", "-Djava.io.tmpdir=" + jt, "-cp", TLAJAR, "tlc2.TLC", "-config", cfg, "-metadir", md,
               "-workers", str(workers), "-noGenerateSpecTE"]
        if extra:
            cmd += extra
        cmd.append(module + ".tla")
        t = time.time()
        try:
            p = subprocess.run(cmd, cwd=self.specdir, env=e, capture_output=True, text=True, timeout=timeout)
        except subprocess.TimeoutExpired:
            raise Infra("TLC %s/%s timed out after %ds" % (module, cfg, timeout))
        finally:
            shutil.rmtree(md, ignore_errors=True)
        out = p.stdout
        res = {"stdout": out, "rc": p.returncode, "wall": time.time() - t}
        m = re.search(r"(\d+) states generated, (\d+) distinct states found", out)
        res["states"] = int(m.group(2)) if m else 0
        res["transitions"] = int(m.group(1)) if m else 0
        res["ok"] = p.returncode == 0 and "Model checking completed. No error has been found" in out
        self.tlc_stats["states"] += res["states"]
        self.tlc_stats["transitions"] += res["transitions"]
        self.tlc_stats["runs"].append({"module": module, "cfg": cfg, "states": res["states"],
                                       "transitions": res["transitions"], "wall_s": round(res["wall"], 2), "ok": res["ok"]})
        if check and not res["ok"]:
            raise Infra("TLC %s/%s failed (rc=%d):\n%s\n%s" % (module, cfg, p.returncode, out[-6000:], p.stderr[-2000:]))
        return res

    def gen(self, module, cfg, out_path, env=None, timeout=1800, xmx="4g", allow_empty=False):
        """phase A+B: TLC enumerates the spec's own case space, checks the spec's self-consistency
        invariants on every case, and prints each case as JSON (<<"CASE", json>>)."""
        res = self.tlc(module, cfg, env=env, workers=1, timeout=timeout, xmx=xmx)
        n = 0
        seen = set()
        with open(out_path, "a") as f:
            for js in case_strings(res["stdout"]):
                if js in seen:
                    continue
                seen.add(js)
                f.write(js + "\n")
                n += 1
        log("[gen] %s/%s: %d cases, %d states, %.1fs" % (module, cfg, n, res["states"], res["wall"]))
        if n == 0 and not allow_empty:
            raise Infra("generator %s produced no cases" % cfg)
        return n

    def validate(self, module, cfg, trace_path, shards=None, env=None, timeout=3600, xmx="3g", resync_key=None):
        """phase D: replay the recorded trace through the trace spec.  The file is cut into shards
        (at lines where resync_key says a new trace starts, or anywhere for stateless traces);
        each shard is validated by its own TLC (-workers 1).  Returns list of verdict dicts
        {line (global, 0-based), verdict, event}."""
        with open(trace_path) as f:
            lines = f.readlines()
        if not lines:
            raise Infra("empty trace " + trace_path)
        nsh = shards or min(NCPU, max(1, len(lines) // 2000))
        cuts = [0]
        if nsh > 1:
            step = len(lines) / nsh
            for k in range(1, nsh):
                i = int(k * step)
                if resync_key:
                    while i < len(lines) and resync_key not in lines[i]:
                        i += 1
                if i < len(lines) and i > cuts[-1]:
                    cuts.append(i)
        cuts.append(len(lines))
        jobs = []
        for k in range(len(cuts) - 1):
            sp = trace_path + ".shard%d" % k
            with open(sp, "w") as f:
                f.writelines(lines[cuts[k]:cuts[k + 1]])
            jobs.append((k, sp, cuts[k], cuts[k + 1] - cuts[k]))
        verdicts = []

        def one(job):
            k, sp, base, cnt = job
            ev = dict(env or {})
            ev["TRACE_FILE"] = sp
            ev.setdefault("VERIF_PROP", self.pid)   # rules that belong to ONE of the properties sharing a monitor
            ev.setdefault("VERIF_EXTRA", "0")   # "1": the monitor also applies its rules beyond the listed properties (E.. checks)
            r = self.tlc(module, cfg, env=ev, workers=1, timeout=timeout, xmx=xmx, check=False, tag="%s-sh%d-%d" % (cfg, k, base))
            if not r["ok"]:
                raise Infra("trace validation %s shard %d did not complete:\n%s" % (cfg, k, r["stdout"][-5000:]))
            vs = []
            # TLC wraps long tuples over several lines: match across newlines
            for m in re.finditer(r'<<\s*"VERDICT",\s*(\d+),\s*"([^"]*)"\s*>>', r["stdout"]):
                li = int(m.group(1)) - 1
                vs.append({"line": base + li, "verdict": m.group(2)})
            return vs

        with cf.ThreadPoolExecutor(max_workers=min(NCPU, len(jobs))) as ex:
            for vs in ex.map(one, jobs):
                verdicts += vs
        dedup = {}
        for v in verdicts:
            dedup[(v["line"], v["verdict"])] = v
        verdicts = sorted(dedup.values(), key=lambda v: v["line"])
        for v in verdicts:
            try:
                v["event"] = json.loads(lines[v["line"]])
            except Exception:
                v["event"] = None
        for k, sp, _, _ in jobs:
            os.remove(sp)
        return verdicts, len(lines)


# -------------------------------------------------------------------- known findings
def load_known():
    known, fixed = {}, []
    # EXTRA_FINDINGS.txt: recorded observations of the checks beyond the listed properties (ids E..), same line format
    for p in (os.path.join(VERIF, "KNOWN_FINDINGS.txt"), os.path.join(VERIF, "EXTRA_FINDINGS.txt")):
        if not os.path.exists(p):
            continue
        for line in open(p):
            line = line.strip()
            if not line or line.startswith("#"):
                continue
            m = re.match(r"known: property=([CE]\d+) id=(\S+) (.*)$", line)
            if m:
                known[m.group(2)] = {"property": m.group(1), "text": m.group(3)}
            elif line.startswith("fixed:"):
                fixed.append(line)
    return known, fixed


def settle(run, verdicts, prop_filter=None):
    """split verdicts into known findings (listed deviation class AND listed wrong behaviour)
    and violations.  A verdict 'known:<id>' whose id is not listed is a violation."""
    known, _ = load_known()
    kn, viol = {}, []
    for v in verdicts:
        vd = v["verdict"]
        if vd.startswith("known:"):
            fid = vd[6:]
            if fid in known and known[fid]["property"] == run.pid:
                kn.setdefault(fid, []).append(v)
                continue
            if fid in known and prop_filter and known[fid]["property"] in prop_filter:
                kn.setdefault(fid, []).append(v)
                continue
        viol.append(v)
    return kn, viol


def confirm_runaway(run, v):
    """the watchdog ended a driver because a case was still running: run that case alone, with the same family flags;
    confirmed only if the watchdog has to end that run as well"""
    e = v.get("event") or {}
    if not e.get("case") or not e.get("family"):
        return "unreproduced"
    n = getattr(run, "_runaway_n", 0) + 1
    run._runaway_n = n
    if n > 2:
        return "confirmed"
    cp, tp = run.path("runaway-%d.cases" % n), run.path("runaway-%d.trace" % n)
    with open(cp, "w") as f:
        f.write(json.dumps(e["case"]) + "\n")
    try:
        run.drive(e["family"], cp, tp, extra=_family_flags(e.get("args") or []))
    except Infra:
        return "unreproduced"
    v["context"] = {"replay_case": e["case"], "family": e["family"], "why": e.get("why")}
    with open(tp) as f:
        return "confirmed" if any('"runaway"' in line for line in f) else "unreproduced"


def _family_flags(args):
    """-tier / -mode and other family flags of the original invocation (seed, in, out are set by drive)"""
    out, i = [], 0
    while i < len(args):
        if args[i] in ("-seed", "-in", "-out"):
            i += 2
            continue
        out.append(args[i])
        i += 1
    return out


def finish(run, level, coverage, assumptions, kn, viol, confirm=None, extra=None):
    """print KNOWN-FINDING / VIOLATION lines, write evidence, return exit code"""
    known, _ = load_known()
    for fid, vs in sorted(kn.items()):
        log("KNOWN-FINDING: property=%s id=%s occurrences=%d %s" % (known[fid]["property"], fid, len(vs), known[fid]["text"]))
    rc = 0
    nviol = 0
    if viol:
        hist = {}
        for v in viol:
            ev = v.get("event") or {}
            k = "%s | %s" % (v["verdict"], ev.get("acc") or ev.get("entry") or ev.get("op") or ev.get("ev") or "")
            hist[k] = hist.get(k, 0) + 1
        for k, n in sorted(hist.items(), key=lambda x: -x[1])[:40]:
            log("  rejected %6d x %s" % (n, k))
        os.makedirs(os.path.join(VERIF, "replays"), exist_ok=True)
        shown = 0
        per = {}
        # report a few violations of every distinct reason rather than the first N of the trace
        order = sorted(range(len(viol)), key=lambda i: (sum(1 for j in range(i) if viol[j]["verdict"] == viol[i]["verdict"]) if len(viol) < 400 else 0, i))
        first_of = {}
        for i, v in enumerate(viol):
            first_of.setdefault(v["verdict"], []).append(i)
        order = []
        depth = 0
        while len(order) < len(viol) and depth < 6:
            for k, idxs in first_of.items():
                if depth < len(idxs):
                    order.append(idxs[depth])
            depth += 1
        rest = [i for i in range(len(viol)) if i not in set(order)]
        for v in [viol[i] for i in order + rest]:
            if v["verdict"] == "library-call-does-not-return":
                st = confirm_runaway(run, v)
                if st == "unreproduced":
                    log("UNREPRODUCED rejection (treated as infrastructure trouble): %s" % json.dumps(v)[:400])
                    rc = max(rc, 2)
                    continue
            elif confirm is not None:
                st = confirm(v)
                if st == "unreproduced":
                    log("UNREPRODUCED rejection (treated as infrastructure trouble): %s" % json.dumps(v)[:400])
                    rc = max(rc, 2)
                    continue
            nviol += 1
            if shown < 20:
                h = hashlib.md5(json.dumps(v, sort_keys=True).encode()).hexdigest()[:10]
                rp = os.path.join(VERIF, "replays", "%s-%s.json" % (run.pid, h))
                with open(rp, "w") as f:
                    json.dump({"property": run.pid, "verdict": v["verdict"], "event": v.get("event"),
                               "context": v.get("context")}, f)
                log("VIOLATION property=%s replay=%s reason=%s" % (run.pid, rp, v["verdict"]))
                log("  event: " + json.dumps(v.get("event"))[:600])
                shown += 1
        if nviol:
            rc = 1
    ev = {
        "property_id": run.pid, "tier": run.tier, "seed": run.seed, "level": level,
        "coverage": coverage, "assumptions": assumptions,
        "wall_s": round(time.time() - run.t0, 2), "violations": nviol,
    }
    ev["coverage"].setdefault("known_findings_seen", {k: len(v) for k, v in kn.items()})
    ev["coverage"].setdefault("tlc_runs", run.tlc_stats["runs"])
    if extra:
        ev.update(extra)
    if REPO == "/repo":
        # checks beyond the listed properties (ids E..) keep their evidence apart from the properties' evidence files
        edir = "evidence-extra" if run.pid.startswith("E") else "evidence"
        os.makedirs(os.path.join(VERIF, edir), exist_ok=True)
        with open(os.path.join(VERIF, edir, run.pid + ".json"), "w") as f:
            json.dump(ev, f, indent=1)
    else:
        log("[note] VERIF_REPO=%s: evidence file not rewritten (evidence is only written for /repo itself)" % REPO)
    log("[done] %s tier=%s seed=%d rc=%d wall=%.1fs violations=%d known=%s" % (
        run.pid, run.tier, run.seed, rc, time.time() - run.t0, nviol, {k: len(v) for k, v in kn.items()}))
    return rc


def library_races(stderr):
    """race detector reports for which the library is responsible: BOTH conflicting accesses happen in library
    code or in code the library calls (a library frame is on both stacks) - e.g. a connection object published
    by Connect without synchronisation and used by Do.  A race in which one access is made by a harness
    goroutine that does not run under the library is a bug of the harness: exit 2."""
    reps = []
    for block in stderr.split("WARNING: DATA RACE")[1:]:
        block = block.split("==================")[0]
        lines = block.splitlines()
        stacks = []
        cur = None
        for ln in lines:
            if ("Read at" in ln or "Write at" in ln or "Previous read at" in ln or "Previous write at" in ln):
                cur = []
                stacks.append(cur)
            elif ln.strip() == "" or ln.startswith("Goroutine"):
                cur = None
            elif cur is not None and not ln.startswith("      "):
                cur.append(ln.strip())
        lib = [any(f.startswith("github.com/aldas/go-modbus-client") for f in st) for st in stacks[:2]]
        # the driver looking at a VALUE THE LIBRARY RETURNED (response / request / error fields) while the library still
        # writes to it is the library's race too: the memory was handed to the caller
        inspecting = [any(f.startswith(("main.respFields", "main.reqFields", "main.errInfo", "main.valueBytes")) for f in st) for st in stacks[:2]]
        if len(lib) == 2 and all(lib):
            reps.append("WARNING: DATA RACE" + block[:2500])
        elif len(lib) == 2 and any(lib) and any(i and not l for i, l in zip(inspecting, lib)):
            reps.append("WARNING: DATA RACE (the caller reads a returned value the library still writes)" + block[:2500])
        elif stacks:
            raise Infra("data race inside the harness itself:\n" + block[:2500])
    return reps


def count_ops(trace_path, key="op"):
    c = {}
    with open(trace_path) as f:
        for line in f:
            try:
                o = json.loads(line)
            except Exception:
                continue
            k = o.get(key, "?")
            c[k] = c.get(k, 0) + 1
    return c


def sample_lines(path, n=3):
    out = []
    with open(path) as f:
        lines = f.readlines()
    if not lines:
        return out
    step = max(1, len(lines) // n)
    for i in range(0, len(lines), step):
        try:
            o = json.loads(lines[i])
        except Exception:
            continue
        s = json.dumps(o)
        out.append(o if len(s) < 1500 else {"truncated": s[:1500]})
        if len(out) >= n:
            break
    return out
