#!/usr/bin/env python3
"""Mutation campaign (sensitivity self-test, not referenced by MANIFEST.json).

For a random sample of single-token mutants of the library's source (relational operators, boolean
connectives, small integer constants, + / -), in scratch copies of /repo (never /repo itself):
  1. the mutant must compile and pass the repository's own tests (otherwise it is uninteresting here);
  2. the checks of the properties anchored in the mutated file are run against it (VERIF_REPO);
  3. exit 1 from one of them = caught; all exit 0 = SURVIVOR (listed with its diff for triage: many
     survivors are equivalent mutants or change behaviour no listed property speaks about).
usage: lib/mutate.py [-jN] [-n SAMPLE] [-s SEED] [file ...]      results: /tmp/mutate-results.jsonl
"""
import concurrent.futures as cf
import json, os, random, re, shutil, subprocess, sys, tempfile

V = os.path.dirname(os.path.dirname(os.path.abspath(__file__)))
REPO = "/repo"
ENV = dict(os.environ, GOFLAGS="-mod=mod", GOPROXY="off", GOSUMDB="off", GOTOOLCHAIN="local")

CHECKS = {
    "packet/packet.go": ["C18", "C03", "C09", "C10", "C16"],
    "packet/error.go": ["C02", "C03", "C16", "C12"],
    "packet/request.go": ["C09", "C10", "C03"],
    "packet/response.go": ["C02", "C11", "C10", "C12"],
    "packet/registers.go": ["C04", "C13", "C05"],
    "splitter.go": ["C06", "C05"],
    "builder.go": ["C05", "C06", "C13", "C11"],
    "client.go": ["C07", "C08", "C12", "C19", "C14"],
    "serialclient.go": ["C07", "C08", "C12", "C19", "C14"],
    "server/modbus.go": ["C15", "C16"],
    "server/server.go": ["C17", "C15", "C16"],
}
for f in os.listdir(os.path.join(REPO, "packet")):
    if f.endswith("_test.go") or not f.endswith(".go"):
        continue
    p = "packet/" + f
    if p in CHECKS:
        continue
    if f.endswith("request.go"):
        CHECKS[p] = ["C01", "C09", "C10", "C16", "C07"]
    elif f.endswith("response.go"):
        CHECKS[p] = ["C02", "C10", "C05", "C11"]

OPS = [
    (r"<=", [">=", "<", "=="]), (r">=", ["<=", ">", "=="]), (r"(?<![<>=!:+\-*/|&^])==", ["!="]), (r"!=", ["=="]),
    (r"(?<![<\-])<(?![<=\-])", ["<=", ">"]), (r"(?<![>\-])>(?![>=])", [">=", "<"]),
    (r"&&", ["||"]), (r"\|\|", ["&&"]),
    (r"(?<![\w.\"+])\+(?![+=\w\"]| *\")", ["-"]), (r"(?<=[\w\)\]]) - (?=[\w\(])", [" + "]),
]
NUM = re.compile(r"(?<![\w.\"x])(\d{1,5})(?![\w.\"x])")


def mutants_of(path):
    src = open(os.path.join(REPO, path)).read().split("\n")
    out = []
    in_block_comment = False
    for i, line in enumerate(src):
        s = line.strip()
        if s.startswith("/*"):
            in_block_comment = True
        if in_block_comment:
            if "*/" in s:
                in_block_comment = False
            continue
        if not s or s.startswith("//") or "verifPoint(" in s or s.startswith("import") or s.startswith("package") or s.startswith('"'):
            continue
        code = line.split("//")[0]
        if code.count('"') >= 2 and ("errors.New" in code or "Errorf" in code or "Printf" in code):
            code_mut = code.split('"')[0]      # do not mutate inside messages
        else:
            code_mut = code
        for pat, reps in OPS:
            for m in re.finditer(pat, code_mut):
                for r in reps:
                    new = line[:m.start()] + r + line[m.end():]
                    out.append((path, i, line, new))
        for m in NUM.finditer(code_mut):
            n = int(m.group(1))
            for r in {n + 1, max(0, n - 1)} - {n}:
                new = line[:m.start(1)] + str(r) + line[m.end(1):]
                out.append((path, i, line, new))
    return out


def run_one(job):
    k, (path, i, old, new) = job
    tmp = tempfile.mkdtemp(prefix="mut-", dir="/tmp")
    res = {"k": k, "file": path, "line": i + 1, "old": old.strip(), "new": new.strip(), "status": ""}
    try:
        subprocess.run(["rsync", "-a", "--exclude", ".git", REPO + "/", tmp + "/"], check=True)
        fp = os.path.join(tmp, path)
        src = open(fp).read().split("\n")
        src[i] = new
        open(fp, "w").write("\n".join(src))
        b = subprocess.run(["go", "build", "./..."], cwd=tmp, env=ENV, capture_output=True, text=True)
        if b.returncode != 0:
            res["status"] = "stillborn"
            return res
        b = subprocess.run(["go", "build", "-tags", "verif", "./..."], cwd=tmp, env=ENV, capture_output=True, text=True)
        if b.returncode != 0:
            res["status"] = "stillborn"
            return res
        try:
            t = subprocess.run(["go", "test", "-vet=off", "-count=1", "-timeout", "120s", "./..."], cwd=tmp, env=ENV, capture_output=True, text=True, timeout=200)
        except subprocess.TimeoutExpired:
            res["status"] = "killed-by-repo-tests(timeout)"
            return res
        if t.returncode != 0:
            res["status"] = "killed-by-repo-tests"
            return res
        env = dict(os.environ, VERIF_REPO=tmp)
        res["checks"] = {}
        for chk in CHECKS[path]:
            try:
                r = subprocess.run([os.path.join(V, "check"), chk], capture_output=True, text=True, env=env, timeout=1500)
                rc = r.returncode
            except subprocess.TimeoutExpired:
                rc = 2
            res["checks"][chk] = rc
            if rc == 1:
                reasons = [ln.strip() for ln in r.stdout.splitlines() if ln.strip().startswith("rejected")][:2]
                res["status"] = "caught-by-" + chk
                res["reasons"] = reasons
                return res
        res["status"] = "SURVIVOR" if all(v == 0 for v in res["checks"].values()) else "infra"
        return res
    finally:
        shutil.rmtree(tmp, ignore_errors=True)


def main():
    args = sys.argv[1:]
    jobs, sample, seed = 4, 200, 1
    files = []
    while args:
        a = args.pop(0)
        if a.startswith("-j"):
            jobs = int(a[2:])
        elif a == "-n":
            sample = int(args.pop(0))
        elif a == "-s":
            seed = int(args.pop(0))
        else:
            files.append(a)
    files = files or sorted(CHECKS)
    allm = []
    for f in files:
        allm += mutants_of(f)
    rnd = random.Random(seed)
    rnd.shuffle(allm)
    pick = allm[:sample]
    print("mutants available: %d, sampled: %d" % (len(allm), len(pick)), flush=True)
    counts = {}
    with open("/tmp/mutate-results.jsonl", "a") as out, cf.ThreadPoolExecutor(max_workers=jobs) as ex:
        for res in ex.map(run_one, enumerate(pick)):
            st = res["status"].split("-by-")[0] if res["status"].startswith("caught") else res["status"]
            counts[st] = counts.get(st, 0) + 1
            out.write(json.dumps(res) + "\n")
            out.flush()
            if res["status"] in ("SURVIVOR", "infra"):
                print("%s %s:%d\n   - %s\n   + %s   %s" % (res["status"], res["file"], res["line"], res["old"], res["new"], res.get("checks")), flush=True)
    print(json.dumps(counts))


if __name__ == "__main__":
    main()
