#!/bin/sh
# usage: benigncheck.sh <ID> <worktree> <checks...>: every check must exit 0 against the refactored tree
ID=$1; WT=$2; shift 2
export GOFLAGS=-mod=mod GOPROXY=off GOSUMDB=off GOTOOLCHAIN=local
cd "$WT" || exit 2
(go build ./... && go build -tags verif ./...) || { echo "$ID DOES NOT COMPILE"; exit 3; }
PK=$(go list ./... | grep -v /demo)
if go test -vet=off -count=1 $PK >/tmp/benign-$ID-tests.txt 2>&1; then echo "$ID repo tests pass"; else echo "$ID repo tests FAIL"; fi
for c in "$@"; do
  VERIF_REPO="$WT" /verif/check "$c" > /tmp/benign-$ID-$c.txt 2>&1; rc=$?
  echo "$ID check $c: exit $rc $(grep -c '^VIOLATION' /tmp/benign-$ID-$c.txt) violations $(grep -E 'INFRASTRUCTURE' /tmp/benign-$ID-$c.txt | head -1 | cut -c1-120)"
  grep "  rejected" /tmp/benign-$ID-$c.txt | head -3
done
mkdir -p /verif/benign/$ID; cp patch.diff /verif/benign/$ID/patch.diff
