#!/bin/sh
# usage: lib/mutant.sh <patch.diff | -e 'sed-expr' file> -- <check ids...>
# Applies a change to a scratch copy of /repo (never /repo itself), runs the given checks against it
# with VERIF_REPO, prints each check's exit code, removes the copy.
set -e
V=$(cd "$(dirname "$0")/.." && pwd)
M=$(mktemp -d /tmp/mut-XXXXXX)
trap 'rm -rf "$M"' EXIT
rsync -a --exclude .git /repo/ "$M/"
if [ "$1" = "-e" ]; then sed -i "$2" "$M/$3"; shift 3; else (cd "$M" && patch -p1 -s < "$1"); shift 1; fi
[ "$1" = "--" ] && shift
( cd "$M" && GOFLAGS=-mod=mod GOPROXY=off go build ./... ) || { echo "MUTANT DOES NOT COMPILE"; exit 3; }
if [ -n "$MUT_TESTS" ]; then ( cd "$M" && GOFLAGS=-mod=mod GOPROXY=off go test -vet=off -count=1 ./... >/dev/null 2>&1 && echo "mutant passes repo tests" || echo "MUTANT FAILS REPO TESTS" ); fi
for id in "$@"; do
  set +e
  VERIF_REPO="$M" "$V/check" "$id" > "$M/out-$id.txt" 2>&1
  rc=$?
  set -e
  echo "check $id on mutant: exit $rc; $(grep -c '^VIOLATION' "$M/out-$id.txt") VIOLATION lines; $(grep '^\[done' "$M/out-$id.txt" | cut -c1-120)"
  grep "rejected" "$M/out-$id.txt" | head -5
  grep "INFRASTRUCTURE" "$M/out-$id.txt" | head -3
done
