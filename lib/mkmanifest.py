#!/usr/bin/env python3
"""Regenerates /verif/MANIFEST.json from the table below (run after adding a check)."""
import json, os, sys
sys.path.insert(0, os.path.dirname(os.path.abspath(__file__)))
V = os.path.dirname(os.path.dirname(os.path.abspath(__file__)))

MC = "model_checking"
T = {
    "C01": dict(cat=MC, sec="3/C01", technique="TLA+ spec (ModbusPDU) + TLC case generation + TLC trace validation of constructor outputs",
                text="TLC enumerates the specification's constructor-argument space and checks the spec's own encode/decode inverse; the real constructors are run on "
                     "those arguments and on every quantity 0..65535 / coil count / register count, and TLC validates each accepted request's bytes against the specified ADU, "
                     "legality and size limits. Exhaustive on the structural axes, sampled on payload content.",
                note="trusts ModbusPDU.tla as a transcription of the Modbus application protocol; payload content sampled"),
    "C02": dict(cat=MC, sec="3/C02", technique="TLA+ spec builds response/exception/mismatch frames; TLC validates parser outputs",
                text="response frames (normal, exception, byte-count mismatch) are built by the specification, parsed by the real dispatchers and per-function parsers, and TLC "
                     "checks decoded fields, re-encoding and typed exception errors event by event.",
                note="FC17 layout as documented by the library; payload content sampled; byte counts exhaustive in thorough"),
    "C03": dict(cat=MC, sec="3/C03", technique="TLC exhaustive check Step=TableStep on (state,byte) space + implementation sweep of all 2^24 transitions + TLC trace validation",
                text="CRC is a fold over a 16-bit state: TLC proves the table step equal to the normative bit-serial step on the transition space, the implementation is compared with "
                     "that table on all 2^24 (state, byte) pairs, and CRC16 outputs, RTU trailers and CRC-verifying parsers (all 65536 trailers) are validated by TLC.",
                note="assumes CRC16 is a fold over one 16-bit state from CRC16(empty); the harness' one-line TableStep transcription is trusted (its table comes from TLC)"),
    "C04": dict(cat=MC, sec="3/C04", technique="TLA+ Registers spec (window, byte/word order permutations) + TLC case generation + TLC trace validation",
                text="TLC generates window shapes (incl. windows ending at 65535) x 23 accessors x orders x probe addresses; the real accessors run on pairwise-distinct payloads inside a "
                     "sentinel buffer; TLC validates every returned value / refusal against the spec; every address is swept for small windows (range events).",
                note="byte/word order convention = the library's documented table; Go's bit-pattern-to-float/int casts trusted"),
    "C13": dict(cat=MC, sec="3/C13", technique="TLA+ Registers state machine (payload' = payload) model-checked + all call histories replayed on the real code and trace-validated",
                text="TLC checks the Registers state machine (and shows with an in-place-swap variant that the property is not vacuous), enumerates ALL call histories of length <= 3 (4) over 18 "
                     "representative calls; the real code executes them on one shared response and TLC validates each step against the original payload.",
                note="payload content: two patterns"),
    "C09": dict(cat=MC, sec="3/C09", technique="spec-encoded request frames + TLC trace validation of parser round trips, 16-bit field sweeps as range events",
                text="request frames encoded by the specification (legal and out-of-limit) are parsed by dispatchers and per-function parsers (TCP, RTU+CRC, RTU without trailer); TLC "
                     "checks equality with the original, re-encoding, and refusal of out-of-limit values; every 16-bit quantity value is swept.",
                note="payload content sampled"),
    "C10": dict(cat="exploration", sec="3/C10", technique="spec-structured hostile input enumeration + seeded fuzz on real parsers; TLC validates the totality contract per event",
                text="the specification contributes the structure of the input space (every prefix / length-consistent truncation / overwritten count of every frame it can build) and "
                     "the totality contract; panics and capacity dependence can only be observed on the real code, so this is exploration of the real parsers.",
                note="random part is sampled; structured part exhaustive for the listed frame shapes"),
    "C11": dict(cat=MC, sec="3/C11", technique="TLA+ coil layout (CoilAt/PackCoils) + TLC trace validation of IsCoilSet/IsInputSet",
                text="TLC checks pack/unpack inverse in the spec, generates one-hot and dense payloads with every query address, and validates each lookup result of the real code.",
                note="write/read-back decided compositionally with C01 (packing) and this check (lookup)"),
    "C18": dict(cat=MC, sec="3/C18", technique="TLA+ classifier contract (Classify) + TLC trace validation incl. dispatcher agreement",
                text="every prefix of spec-encoded request frames and a header sweep (length field x 256 function codes x protocol ids) are classified by the real code; accepted headers "
                     "are completed to n bytes and given to the real dispatcher; TLC validates each event.",
                note="'valid exception reply' = well-formed 9-byte exception ADU"),
}

PENDING = {}


def main():
    import props
    checks = []
    for pid in sorted(T):
        if pid not in props.CHECKS:
            continue
        t = T[pid]
        checks.append({
            "property_id": pid,
            "quick_cmd": "./check %s --tier quick" % pid,
            "thorough_cmd": "./check %s --tier thorough" % pid,
            "evidence_file": "evidence/%s.json" % pid,
            "replay_cmd_template": "./check %s --replay {path}" % pid,
            "engine": "tlc",
            "level_claimed": {"category": t["cat"], "text": t["text"], "design_ref": "DESIGN.md section " + t["sec"]},
            "level_note": t["note"],
            "technique": t["technique"],
        })
    allp = [json.loads(l)["id"] for l in open(os.path.join(V, "properties.jsonl"))]
    na = [{"property_id": p, "reason": PENDING.get(p, "check not built yet (work in progress; planned pipeline in DESIGN.md section 3)")}
          for p in allp if p not in [c["property_id"] for c in checks]]
    m = {
        "version": 1,
        "setup_cmd": "./setup.sh",
        "hooks": {
            "guard": "verif",
            "enable": "go build -tags verif (harness module with `replace github.com/aldas/go-modbus-client => /repo`)",
            "baseline_off_cmd": "cd /repo && GOFLAGS=-mod=mod GOPROXY=off GOSUMDB=off go test -json -vet=off -count=1 -timeout 25m ./...",
            "source_commits": HOOK_COMMITS,
            "add_only": True,
        },
        "engines": [{"name": "tlc", "path": "/verif/check", "serves_properties": [c["property_id"] for c in checks],
                     "kind_free_text": "explicit TLA+ specifications in /verif/spec checked by TLC (design checking, case generation, trace validation of the Go code built from /repo)"}],
        "checks": checks,
        "not_applicable": na,
        "notes": "VERIF_SEED seeds harness-side random choices; VERIF_TIER overrides --tier; exit 2 = infrastructure trouble (never a verdict). "
                 "Known findings: KNOWN_FINDINGS.txt + spec/KnownFindings.tla.",
    }
    if not na:
        del m["not_applicable"]
    with open(os.path.join(V, "MANIFEST.json"), "w") as f:
        json.dump(m, f, indent=1)
    print("claimed:", [c["property_id"] for c in checks], "not_applicable:", [x["property_id"] for x in na])


HOOK_COMMITS = []

if __name__ == "__main__":
    main()
