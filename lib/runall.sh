#!/bin/sh
# runs every claimed check (quick or $1 tier) sequentially; prints one line per check
cd "$(dirname "$0")/.."
TIER=${1:-quick}
for id in C01 C02 C03 C04 C05 C06 C07 C08 C09 C10 C11 C12 C13 C14 C15 C16 C17 C18 C19; do
  s=$(date +%s)
  ./check $id --tier $TIER > /tmp/runall-$id.txt 2>&1
  rc=$?
  e=$(date +%s)
  echo "$id rc=$rc $((e-s))s $(grep -c '^VIOLATION' /tmp/runall-$id.txt) violations; $(grep -c '^KNOWN-FINDING' /tmp/runall-$id.txt) known; $(grep -E 'INFRASTRUCTURE|UNREPRODUCED' /tmp/runall-$id.txt | head -1 | cut -c1-150)"
done
