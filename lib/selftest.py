#!/usr/bin/env python3
"""Sensitivity self-test: applies every kept seeded change (seeded/<id>/patch.diff) to a scratch copy of /repo
(never /repo itself), runs the check of the property it breaks against that copy (VERIF_REPO) and expects exit 1
with a VIOLATION line.  Not referenced by MANIFEST.json.  usage: lib/selftest.py [-jN] [id ...]"""
import json, os, shutil, subprocess, sys, tempfile, time

V = os.path.dirname(os.path.dirname(os.path.abspath(__file__)))


def main():
    import concurrent.futures as cf
    args = sys.argv[1:]
    jobs = 1
    if args and args[0].startswith("-j"):
        jobs = int(args[0][2:] or 2)
        args = args[1:]
    ids = args or sorted(os.listdir(os.path.join(V, "seeded")))
    with cf.ThreadPoolExecutor(max_workers=jobs) as ex:
        bad = sum(ex.map(one, ids))
    print("not caught: %d of %d" % (bad, len(ids)))
    return 1 if bad else 0


def one(sid):
    bad = 0
    for sid in [sid]:
        d = os.path.join(V, "seeded", sid)
        meta = json.load(open(os.path.join(d, "meta.json")))
        prop = meta["property"]
        tmp = tempfile.mkdtemp(prefix="selftest-", dir="/tmp")
        try:
            subprocess.run(["rsync", "-a", "--exclude", ".git", "/repo/", tmp + "/"], check=True)
            p = subprocess.run(["patch", "-p1", "-s", "-i", os.path.join(d, "patch.diff")], cwd=tmp, capture_output=True, text=True)
            if p.returncode != 0:
                print("%-6s patch does not apply: %s" % (sid, p.stdout[-200:]))
                bad += 1
                continue
            env = dict(os.environ, VERIF_REPO=tmp)
            t = time.time()
            # the check of the property the change was written against, unless meta.json names the check it belongs to
            for chk in meta.get("caught_by", [prop]):
                r = subprocess.run([os.path.join(V, "check"), chk], capture_output=True, text=True, env=env)
                nv = sum(1 for ln in r.stdout.splitlines() if ln.startswith("VIOLATION"))
                ok = r.returncode == 1 and nv > 0
                print("%-6s check %s: exit %d, %d VIOLATION lines, %.0fs  %s" % (sid, chk, r.returncode, nv, time.time() - t, "caught" if ok else "NOT CAUGHT"), flush=True)
                bad += 0 if ok else 1
        finally:
            shutil.rmtree(tmp, ignore_errors=True)
    return bad


if __name__ == "__main__":
    sys.exit(main())
