#!/bin/sh
# usage: lib/seedcheck.sh <ID> <worktree> "<demo command>" <check ids...>
# Confirms a seeded change (compiles, repo tests pass, demo fails with / passes without the change),
# runs the given checks against the worktree (VERIF_REPO), stores the change under seeded/<ID>/.
ID=$1; WT=$2; DEMO=$3; shift 3
V=$(cd "$(dirname "$0")/.." && pwd)
export GOFLAGS=-mod=mod GOPROXY=off GOSUMDB=off GOTOOLCHAIN=local
cd "$WT" || exit 2
FILES=$(grep '^+++ b/' patch.diff | sed 's#^+++ b/##')
echo "== $ID: changed files: $FILES"
go build ./... || { echo "DOES NOT COMPILE"; exit 3; }
PKGS=$(go list ./... | grep -v '/demo')
if go test -vet=off -count=1 $PKGS > /tmp/seed-$ID-tests.txt 2>&1; then echo "repo tests: PASS with change"; else echo "repo tests: FAIL with change"; tail -5 /tmp/seed-$ID-tests.txt; fi
if sh -c "$DEMO" > /tmp/seed-$ID-demo-with.txt 2>&1; then echo "demo WITH change: passes (BAD)"; else echo "demo WITH change: fails (good)"; fi
git apply -R patch.diff || { echo "cannot reverse patch"; exit 3; }
if sh -c "$DEMO" > /tmp/seed-$ID-demo-without.txt 2>&1; then echo "demo WITHOUT change: passes (good)"; else echo "demo WITHOUT change: fails (BAD)"; tail -5 /tmp/seed-$ID-demo-without.txt; fi
git apply patch.diff || { echo "cannot re-apply patch"; exit 3; }
for c in "$@"; do
  VERIF_REPO="$WT" "$V/check" "$c" > /tmp/seed-$ID-check-$c.txt 2>&1
  rc=$?
  echo "check $c against seeded $ID: exit $rc; $(grep -c '^VIOLATION' /tmp/seed-$ID-check-$c.txt) VIOLATION lines"
  grep "  rejected" /tmp/seed-$ID-check-$c.txt | head -4
  grep -E "INFRASTRUCTURE|UNREPRODUCED" /tmp/seed-$ID-check-$c.txt | head -2 | cut -c1-300
done
mkdir -p "$V/seeded/$ID"
cp patch.diff "$V/seeded/$ID/patch.diff"
rm -rf "$V/seeded/$ID/demo"; cp -r demo "$V/seeded/$ID/demo"
