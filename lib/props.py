"""Per-property pipelines (DESIGN.md section 3)."""
import json, os, random, time
import vlib
from vlib import log, Infra

CHECKS = {}


def check(pid):
    def deco(f):
        CHECKS[pid] = f
        return f
    return deco


def write_cfg(run, name, body):
    with open(os.path.join(run.specdir, name), "w") as f:
        f.write(body)
    return name


def gen_codec(run, setname, out_path):
    cfg = write_cfg(run, "Gen_Codec_%s.cfg" % setname,
                    'INIT Init\nNEXT Next\nINVARIANT SelfConsistent\nINVARIANT Emit\nCHECK_DEADLOCK FALSE\n'
                    'CONSTANTS Set = "%s" Tier = "%s"\n' % (setname, run.tier))
    return run.gen("Gen_Codec", cfg, out_path)


def append_cases(path, cases):
    with open(path, "a") as f:
        for c in cases:
            f.write(json.dumps(c) + "\n")
    return len(cases)


# ---------------------------------------------------------------- codec family
CODEC_CASE_OF_EVENT = {
    # how to turn a rejected event back into a stand-alone case for the confirmation re-run
    "newreq": lambda e: dict(e, op="newreq"),
    "parseresp": lambda e: {"op": "parseresp", "entry": e["entry"], "framing": e["framing"], "frame": e["frame"]},
    "parsereq": lambda e: {"op": "parsereq", "entry": e["entry"], "framing": e["framing"], "frame": e["frame"]},
    "parsereq_errrange": lambda e: {"op": "sweep_parsereq", "entry": e["entry"], "framing": e["framing"], "frame": e["frame"],
                                    "start": e["off"], "from": e["from"], "to": e["to"], "fc": e["fc"], "tag": e["tag"]},
    "parseany": lambda e: {"op": "parseany", "entry": e["entry"], "frame": e["frame"], "tail": e.get("tail", [])},
    "classify": lambda e: {"op": "classify", "frame": e["frame"], "allow": e["allow"], "tag": e["tag"]},
    "crc": lambda e: {"op": "crc", "msg": e["msg"]},
    "coil": lambda e: {k: e[k] for k in ("op", "fc", "framing", "payload", "start", "addr", "method")},
    "coilextract": lambda e: {"op": "coilextract", "fc": e["fc"], "payload": e["payload"], "start": e["start"], "data": e["addrs"]},
    "coilroundtrip": lambda e: {"op": "coilroundtrip", "framing": e["framing"], "unit": 1, "addr": e["start"], "coils": e["coils"]},
    "trailer": lambda e: {"op": "trailer", "entry": e["entry"], "frame": e["frame"], "data": e["frame"][-2:], "tag": "list"},
    "trailer_all": lambda e: {"op": "trailer", "entry": e["entry"], "frame": e["frame"], "data": [], "tag": "all"},
}


def codec_confirm(run):
    """phase E: re-drive the rejected input alone and re-validate; only a reproduced rejection counts"""
    state = {"n": 0}

    def confirm(v):
        e = v.get("event")
        if not e or e.get("op") not in CODEC_CASE_OF_EVENT:
            return "confirmed"  # cannot be re-driven alone (e.g. crcsweep): deterministic, keep
        state["n"] += 1
        if state["n"] > 25:
            return "confirmed"
        cp = run.path("confirm-%d.cases" % state["n"])
        tp = run.path("confirm-%d.trace" % state["n"])
        with open(cp, "w") as f:
            f.write(json.dumps(CODEC_CASE_OF_EVENT[e["op"]](e)) + "\n")
        run.drive("codec", cp, tp)
        vs, _ = run.validate("Trace_Codec", "Trace_Codec.cfg", tp, shards=1)
        v["context"] = {"replay_case": CODEC_CASE_OF_EVENT[e["op"]](e)}
        return "confirmed" if any(x["verdict"] == v["verdict"] for x in vs) else "unreproduced"
    return confirm


def codec_pipeline(run, setname, extra_cases, rule, assumptions, nontrivial=None, exhaustive_note=None, level="model_checking"):
    cases = run.path("cases.ndjson")
    trace = run.path("trace.ndjson")
    open(cases, "w").close()
    ngen = gen_codec(run, setname, cases)
    nextra = append_cases(cases, extra_cases)
    run.drive("codec", cases, trace, extra=["-tier", run.tier])
    verdicts, nev = run.validate("Trace_Codec", "Trace_Codec.cfg", trace)
    kn, viol = vlib.settle(run, verdicts)
    ops = vlib.count_ops(trace)
    nt = nontrivial(trace) if nontrivial else nev
    cov = {
        "states": run.tlc_stats["states"], "transitions": run.tlc_stats["transitions"],
        "traces_validated_against_impl": nev,
        "evaluations": nev, "distinct_nontrivial": nt,
        "rule": rule,
        "spec_generated_cases": ngen, "harness_sweep_cases": nextra, "events_by_op": ops,
        "samples": vlib.sample_lines(trace, 3),
        "exhaustive": False,
    }
    if exhaustive_note:
        cov["exhaustive_axes"] = exhaustive_note
    return vlib.finish(run, level, cov, assumptions, kn, viol, confirm=codec_confirm(run))


def count_where(trace, pred):
    n = 0
    seen = set()
    with open(trace) as f:
        for line in f:
            try:
                e = json.loads(line)
            except Exception:
                continue
            if pred(e):
                k = line
                if k not in seen:
                    seen.add(k)
                    n += 1
    return n


@check("C01")
def c01(run):
    T = run.tier == "thorough"
    ex = []
    for fr in ("tcp", "rtu"):
        for fc in (1, 2, 3, 4):
            if T:
                ex.append({"op": "sweep_newreq", "fc": fc, "framing": fr, "unit": 17, "addr": 513, "tid": 258, "from": 0, "to": 65535})
            else:
                hi = 2100 if fc <= 2 else 300
                ex.append({"op": "sweep_newreq", "fc": fc, "framing": fr, "unit": 17, "addr": 513, "tid": 258, "from": 0, "to": hi})
                ex.append({"op": "sweep_newreq", "fc": fc, "framing": fr, "unit": 17, "addr": 513, "tid": 258, "from": 65400, "to": 65535})
        for pat in (("rand", "ones", "last") if T else ("rand",)):
            rng = (0, 2100) if T else (1950, 1975)
            ex.append({"op": "sweep_newreq", "fc": 15, "framing": fr, "unit": 3, "addr": 65535, "tid": 1, "from": rng[0], "to": rng[1], "pat": pat})
            if not T:
                ex.append({"op": "sweep_newreq", "fc": 15, "framing": fr, "unit": 3, "addr": 65535, "tid": 1, "from": 0, "to": 40, "pat": pat})
        for pat in (("rand", "ones", "ramp") if T else ("rand",)):
            ex.append({"op": "sweep_newreq", "fc": 16, "framing": fr, "unit": 9, "addr": 4660, "tid": 65535, "from": 0, "to": 130, "pat": pat})
            ex.append({"op": "sweep_newreq", "fc": 23, "framing": fr, "unit": 9, "addr": 1, "waddr": 2, "qty": 1, "tid": 0, "from": 0, "to": 130, "pat": pat, "tag": "write"})
            ex.append({"op": "sweep_newreq", "fc": 23, "framing": fr, "unit": 9, "addr": 1, "waddr": 2, "data": [1, 2], "tid": 0,
                       "from": 0, "to": (65535 if T else 300), "pat": pat, "tag": "read"})
        # transaction ids: the constructor's own random id (tid -1 keeps it) and boundary ids
        for fc in (1, 3, 5, 6, 17):
            for tid in (-1, -1, -1, 0, 1, 255, 65280, 65535):
                ex.append({"op": "newreq", "fc": fc, "framing": fr, "unit": 1, "addr": 2, "qty": 1, "data": [1, 2], "coils": [], "waddr": 0, "tid": tid})
    return codec_pipeline(
        run, "c01", ex,
        rule="spec-enumerated constructor arguments (10 fc x 2 framings x header combos x boundary quantities x payload patterns) "
             "plus harness sweeps over every quantity/count; an evaluation is non-trivial when the constructor ACCEPTED and the "
             "monitor compared the emitted bytes with the specified ADU; distinct = distinct trace lines",
        assumptions=["ModbusPDU.tla transcribes MODBUS Application Protocol V1.1b3 correctly (cross-checked by its own encode/decode inverse invariant)",
                     "payload content is sampled (patterns + seeded random), structure axes are enumerated"],
        nontrivial=lambda tr: count_where(tr, lambda e: e.get("op") == "newreq" and e.get("accepted")),
        exhaustive_note="fc x framing x every quantity 0..65535 (thorough) / 0..2100 and 65400..65535 (quick); coil count 0..2100 / register count 0..130")


@check("C02")
def c02(run):
    return codec_pipeline(
        run, "c02", [],
        rule="response frames built by the SPECIFICATION (normal responses of 10 functions x byte counts x patterns x header values; "
             "exception frames fc 128..255 x codes; byte-count/length mismatch frames) fed to the dispatchers and per-function parsers; "
             "non-trivial = frame classified normal/exception/mismatch by the monitor (a demand applied)",
        assumptions=["FC17 response uses the layout the library documents (id length, id, status, additional data)",
                     "payload content is sampled by patterns; byte counts exhaustive in thorough"],
        nontrivial=lambda tr: count_where(tr, lambda e: e.get("op") == "parseresp"))


@check("C03")
def c03(run):
    rnd = random.Random(run.seed)
    ex = []
    lens = range(0, 301) if run.tier == "thorough" else list(range(0, 40)) + [63, 64, 65, 127, 128, 129, 255, 256, 257, 300]
    for n in lens:
        ex.append({"op": "rand_crc", "n": 3 if run.tier == "thorough" else 1, "len": n})
    ex.append({"op": "rand_crc", "n": 2, "len": 10000 if run.tier == "thorough" else 2000})
    # design level: the table step equals the normative bit-serial step on the (state, byte) space
    cfg = write_cfg(run, "MC_CRC_run.cfg",
                    "INIT Init\nNEXT Next\nINVARIANT StepEqualsTableStep\nINVARIANT ResidueLaw\nCHECK_DEADLOCK FALSE\n"
                    'CONSTANTS Tier = "%s"\n' % run.tier)
    r = run.tlc("MC_CRC", cfg, workers=vlib.NCPU, timeout=3000, xmx="8g")
    log("[mc] MC_CRC: %d states in %.1fs" % (r["states"], r["wall"]))
    return codec_pipeline(
        run, "c03", ex,
        rule="(1) TLC: normative bit-serial Step = TableStep on all (state,byte) pairs [thorough: 2^24; quick: 2^16 states x 4 bytes + 256 x 256]; "
             "(2) implementation: CRC16(m(s) . b) = TableStep(s,b) for ALL 2^24 pairs with TLC's table (one `crcsweep` event); "
             "(3) TLC validates CRC16(msg) for spec-enumerated and seeded random messages; (4) trailer variants / all 65536 trailers on RTU frames; "
             "non-trivial = every crc/trailer event (all demand equality with the specification's CRC)",
        assumptions=["CRC16 is a fold over one 16-bit state starting from CRC16(empty): then equality on all 2^24 transitions + initial value implies equality on every byte string",
                     "the one-line TableStep transcription in the harness sweep (its equivalence to the normative definition is what MC_CRC checks)"],
        nontrivial=lambda tr: count_where(tr, lambda e: e.get("op") in ("crc", "trailer", "trailer_all", "crcsweep")),
        exhaustive_note="all 2^24 (state, byte) transitions on the implementation; all 65536 trailers per frame shape")


@check("C09")
def c09(run):
    T = run.tier == "thorough"
    ex = []
    # every quantity 0..65535 of FC1-4 / counts of FC15/16/23 through dispatcher and per-function parsers.
    tmpl = {
        ("tcp", 1): [0, 7, 0, 0, 0, 6, 17, 1, 2, 1, 0, 1], ("tcp", 2): [0, 7, 0, 0, 0, 6, 17, 2, 2, 1, 0, 1],
        ("tcp", 3): [0, 7, 0, 0, 0, 6, 17, 3, 2, 1, 0, 1], ("tcp", 4): [0, 7, 0, 0, 0, 6, 17, 4, 2, 1, 0, 1],
        ("tcp", 5): [0, 7, 0, 0, 0, 6, 17, 5, 2, 1, 0, 0],
        ("tcp", 15): [0, 7, 0, 0, 0, 9, 17, 15, 2, 1, 0, 9, 2, 255, 1], ("tcp", 16): [0, 7, 0, 0, 0, 11, 17, 16, 2, 1, 0, 2, 4, 1, 2, 3, 4],
        ("tcp", 23): [0, 7, 0, 0, 0, 15, 17, 23, 0, 1, 0, 2, 0, 3, 0, 2, 4, 1, 2, 3, 4],
    }
    names = {1: "ReadCoils", 2: "ReadDiscreteInputs", 3: "ReadHoldingRegisters", 4: "ReadInputRegisters", 5: "WriteSingleCoil",
             15: "WriteMultipleCoils", 16: "WriteMultipleRegisters", 23: "ReadWriteMultipleRegisters"}
    hi = 65535 if T else 2300
    for (fr, fc), t in tmpl.items():
        offs = [10] if fc != 23 else [10, 14]
        for off in offs:
            for entry in ("ParseTCPRequest", "Parse%sRequestTCP" % names[fc]):
                ex.append({"op": "sweep_parsereq", "entry": entry, "framing": "tcp", "frame": t, "start": off, "from": 0, "to": hi if fc != 5 else 65535, "fc": fc, "tag": ""})
            rtu = t[6:] + [0, 0]
            for entry in ("ParseRTURequest", "ParseRTURequestWithCRC", "Parse%sRequestRTU" % names[fc]):
                ex.append({"op": "sweep_parsereq", "entry": entry, "framing": "rtu", "frame": rtu, "start": off - 6, "from": 0, "to": hi if fc != 5 else 65535, "fc": fc, "tag": ""})
    return codec_pipeline(
        run, "c09", ex,
        rule="request frames encoded by the SPECIFICATION (legal ones over boundary values, out-of-limit variants) through the dispatchers and "
             "per-function parsers (TCP, RTU with CRC, RTU without trailer) plus harness sweeps of every quantity value; "
             "non-trivial = the frame decodes (by the spec) to a request of the parser's function, so legal => accepted-and-equal or out-of-limit => refused was demanded",
        assumptions=["payload content sampled by patterns"],
        nontrivial=lambda tr: count_where(tr, lambda e: e.get("op") in ("parsereq", "parsereq_errrange")),
        exhaustive_note="every 16-bit quantity / count / coil value per function and framing (thorough)")


@check("C10")
def c10(run):
    T = run.tier == "thorough"
    ex = [{"op": "fuzz_parseany", "tag": "random", "n": 4000 if T else 400, "len": 300}]
    seeds = [
        [18, 52, 0, 0, 0, 6, 1, 3, 0, 10, 0, 3], [18, 52, 0, 0, 0, 11, 1, 16, 0, 10, 0, 2, 4, 1, 2, 3, 4],
        [18, 52, 0, 0, 0, 15, 1, 23, 0, 10, 0, 2, 0, 20, 0, 2, 4, 1, 2, 3, 4], [18, 52, 0, 0, 0, 5, 1, 3, 2, 1, 2],
        [18, 52, 0, 0, 0, 8, 1, 17, 2, 65, 66, 255, 1, 2], [18, 52, 0, 0, 0, 3, 1, 131, 2],
        [1, 3, 0, 10, 0, 3, 36, 9], [1, 16, 0, 10, 0, 2, 4, 1, 2, 3, 4, 0x92, 0x9f], [1, 3, 2, 1, 2, 0x39, 0x25], [1, 131, 2, 0xc0, 0xf1],
        [1, 17, 2, 65, 66, 255, 1, 2, 0, 0], [1, 15, 0, 10, 0, 9, 2, 255, 1, 0, 0],
    ]
    for s in seeds:
        ex.append({"op": "fuzz_parseany", "tag": "mutate", "frame": s, "n": 600 if T else 60})
    return codec_pipeline(
        run, "c10", ex,
        rule="for each of the 53 parsing entry points: every prefix of every boundary frame the SPECIFICATION can build, the same prefixes with the MBAP "
             "length rewritten to be consistent, count/quantity bytes overwritten, all strings of length <= 1 and boundary strings of length 2, plus "
             "seeded random strings (<= 300 bytes) and mutations of valid frames; each input is presented with exact capacity and as a prefix of larger "
             "buffers (valid continuation, 0xFF, 0x00, plausible bytes) and the outcomes compared; non-trivial = every executed (entry, input) pair",
        assumptions=["the specification contributes the structure of the input space and the totality contract; whether a call panics is only observable on the real code",
                     "fuzz events are logged in full when non-conforming, otherwise a 2% sample is logged (all are executed)"],
        nontrivial=lambda tr: count_where(tr, lambda e: e.get("op") == "parseany"), level="exploration")


@check("C11")
def c11(run):
    return codec_pipeline(
        run, "c11", [],
        rule="coil/discrete-input payloads chosen by the SPECIFICATION (every one-hot pattern of 1..3 bytes, boundary one-hots of 250 bytes, dense patterns) x start "
             "addresses x every queried address inside, before and beyond (incl. 16-bit wrap probes) x IsCoilSet / IsInputSet; "
             "non-trivial = query inside the payload (value compared with bit (i mod 8) of byte (i div 8)) or outside (error demanded)",
        assumptions=["write/read-back relation is decided compositionally: C01 shows write requests pack coil i into bit i%8 of byte i/8, this check shows lookup reads the same bit"],
        nontrivial=lambda tr: count_where(tr, lambda e: e.get("op") in ("coil", "coilextract", "coilroundtrip")))


@check("C18")
def c18(run):
    T = run.tier == "thorough"
    ex = []
    for proto in (0, 1):
        ex.append({"op": "sweep_classify", "start": proto, "from": 0, "to": 300 if T else 20, "allow": False})
    if T:
        ex.append({"op": "sweep_classify", "start": 0, "from": 65500, "to": 65535, "allow": False})
        ex.append({"op": "sweep_classify", "start": 0, "from": 0, "to": 300, "allow": True})
    return codec_pipeline(
        run, "c18", ex,
        rule="(1) every prefix of request frames the SPECIFICATION encodes for all 10 functions (small and maximal) -> classifier; "
             "(2) 8-byte headers: length field x all 256 function codes x protocol ids, with and without a body; whatever is accepted with length n is "
             "completed to n bytes and given to ParseTCPRequest; non-trivial = every classify event",
        assumptions=["'valid exception reply' for the dispatcher agreement means a well-formed 9-byte exception ADU (addressing is C16's subject)"],
        nontrivial=lambda tr: count_where(tr, lambda e: e.get("op") == "classify"))


def replay(run, path):
    with open(path) as f:
        r = json.load(f)
    log("replay of %s: verdict was %s" % (path, r.get("verdict")))
    e = r.get("event") or {}
    ctx = r.get("context") or {}
    case = ctx.get("replay_case")
    fam = ctx.get("family", "codec")
    if not case:
        log("no stand-alone case recorded; re-run the check")
        return 2
    cp, tp = run.path("replay.cases"), run.path("replay.trace")
    with open(cp, "w") as f:
        for c in (case if isinstance(case, list) else [case]):
            f.write(json.dumps(c) + "\n")
    run.drive(fam, cp, tp)
    spec = ctx.get("trace_spec", "Trace_Codec")
    vs, _ = run.validate(spec, spec + ".cfg", tp, shards=1)
    for v in vs:
        log("VERDICT line=%d %s" % (v["line"], v["verdict"]))
    bad = [v for v in vs if not v["verdict"].startswith("known:")]
    if bad:
        log("VIOLATION property=%s replay=%s" % (r.get("property"), path))
        return 1
    return 0


# ---------------------------------------------------------------- generic stateful family pipeline
def gen_family(run, module, setname, out_path, timeout=1800):
    cfg = write_cfg(run, "%s_%s.cfg" % (module, setname),
                    'INIT Init\nNEXT Next\nINVARIANT SelfConsistent\nINVARIANT Emit\nCHECK_DEADLOCK FALSE\n'
                    'CONSTANTS Set = "%s" Tier = "%s"\n' % (setname, run.tier))
    return run.gen(module, cfg, out_path, timeout=timeout)


def trace_lines(path):
    with open(path) as f:
        return f.readlines()


def mc(run, module, cfg, expect_violation=False, workers=4, timeout=1800, xmx="4g"):
    """phase A: design-level model checking.  A failing reference model is a broken specification
    (exit 2); a non-vacuity configuration must produce a counterexample."""
    r = run.tlc(module, cfg, workers=workers, timeout=timeout, xmx=xmx, check=False)
    if expect_violation:
        if "violated" not in r["stdout"]:
            raise Infra("non-vacuity configuration %s/%s found no counterexample:\n%s" % (module, cfg, r["stdout"][-3000:]))
    elif not r["ok"]:
        raise Infra("design-level model %s/%s does not satisfy its properties (specification error):\n%s" % (module, cfg, r["stdout"][-5000:]))
    log("[mc] %s/%s: %d distinct states, %d generated, %.1fs%s" % (module, cfg, r["states"], r["transitions"], r["wall"],
                                                                  " (counterexample as expected)" if expect_violation else ""))
    return r


# ---------------------------------------------------------------- registers family
ACCS_PLAIN = ["Uint16", "Int16", "Register", "Uint32", "Int32", "Float32", "Uint64", "Int64", "Float64"]
ACCS_ORDER = ["Uint32WithByteOrder", "Int32WithByteOrder", "Float32WithByteOrder", "Uint64WithByteOrder", "Int64WithByteOrder",
              "Float64WithByteOrder", "DoubleRegister", "QuadRegister"]


def regs_confirm(run, trace, fresh):
    lines = None
    state = {"n": 0}

    def confirm(v):
        nonlocal lines
        if lines is None:
            lines = trace_lines(trace)
        state["n"] += 1
        if state["n"] > 15:
            return "confirmed"
        i = v["line"]
        j = i
        while j >= 0 and '"ev":"reset"' not in lines[j]:
            j -= 1
        if j < 0:
            return "confirmed"
        rs = json.loads(lines[j])
        e = v["event"]
        if e["ev"] == "range":
            case = {"op": "sweep", "start": rs["start"], "payload": rs["payload"], "def": rs["def"], "from": e["from"], "to": e["to"],
                    "calls": [{k: e[k] for k in ("acc", "order", "len", "bit", "high")} | {"addr": 0}]}
        elif e["ev"] == "call":
            calls = []
            rng = range(j + 1, i + 1) if not fresh else [i]
            for k in rng:
                ek = json.loads(lines[k])
                if ek.get("ev") == "call":
                    calls.append({x: ek[x] for x in ("acc", "addr", "order", "len", "bit", "high")})
            case = {"op": "window", "start": rs["start"], "payload": rs["payload"], "def": rs["def"], "calls": calls, "fresh": fresh}
        else:
            return "confirmed"
        cp, tp = run.path("confirm-%d.cases" % state["n"]), run.path("confirm-%d.trace" % state["n"])
        with open(cp, "w") as f:
            f.write(json.dumps(case) + "\n")
        run.drive("regs", cp, tp)
        vs, _ = run.validate("Trace_Regs", "Trace_Regs.cfg", tp, shards=1)
        v["context"] = {"replay_case": case, "family": "regs", "trace_spec": "Trace_Regs"}
        return "confirmed" if any(x["verdict"] == v["verdict"] for x in vs) else "unreproduced"
    return confirm


def regs_pipeline(run, setname, extra_cases, rule, assumptions, fresh, mcs):
    cases, trace = run.path("cases.ndjson"), run.path("trace.ndjson")
    open(cases, "w").close()
    for module, cfg, expect in mcs:
        mc(run, module, cfg, expect_violation=expect)
    ngen = gen_family(run, "Gen_Regs", setname, cases)
    nextra = append_cases(cases, extra_cases)
    run.drive("regs", cases, trace)
    verdicts, nev = run.validate("Trace_Regs", "Trace_Regs.cfg", trace, resync_key='"ev":"reset"')
    kn, viol = vlib.settle(run, verdicts)
    ops = vlib.count_ops(trace, key="ev")
    cov = {
        "states": run.tlc_stats["states"], "transitions": run.tlc_stats["transitions"],
        "traces_validated_against_impl": ops.get("reset", 0),
        "evaluations": nev, "distinct_nontrivial": count_where(trace, lambda e: e.get("ev") in ("call", "range", "extract")),
        "rule": rule, "spec_generated_cases": ngen, "harness_sweep_cases": nextra, "events_by_kind": ops,
        "samples": vlib.sample_lines(trace, 3), "exhaustive": False,
    }
    return vlib.finish(run, "model_checking", cov, assumptions, kn, viol, confirm=regs_confirm(run, trace, fresh))


def pay(count):
    return [((i * 7 + 3) % 251) + 1 for i in range(1, 2 * count + 1)]


@check("C04")
def c04(run):
    T = run.tier == "thorough"
    ex = []
    tm = []
    for a in ACCS_PLAIN:
        tm.append({"acc": a, "addr": 0, "order": 0, "len": 0, "bit": 0, "high": 0})
    for a in ACCS_ORDER:
        for o in ((5, 9, 6, 10) if T else (5, 10)):
            tm.append({"acc": a, "addr": 0, "order": o, "len": 0, "bit": 0, "high": 0})
    for a in ("Byte", "Uint8", "Int8"):
        tm.append({"acc": a, "addr": 0, "order": 0, "len": 0, "bit": 0, "high": 1})
    tm.append({"acc": "Bit", "addr": 0, "order": 0, "len": 0, "bit": 9, "high": 0})
    for ln in ((1, 2, 3, 4, 7, 8, 9, 255) if T else (1, 2, 3, 8)):
        tm.append({"acc": "String", "addr": 0, "order": 0, "len": ln, "bit": 0, "high": 0})
        tm.append({"acc": "StringWithByteOrder", "addr": 0, "order": 6, "len": ln, "bit": 0, "high": 0})
    wins = []
    for cnt in ((1, 2, 3, 4) if T else (1, 4)):
        for st in ((0, 65536 - cnt, 65535 - cnt, 32768 - cnt, 32768) if T else (0, 65536 - cnt)):
            wins.append((st, cnt))
    for st, cnt in wins:
        if T:
            ex.append({"op": "sweep", "start": st, "payload": pay(cnt), "def": 9, "calls": tm, "from": 0, "to": 65535})
        else:
            ex.append({"op": "sweep", "start": st, "payload": pay(cnt), "def": 9, "calls": tm, "from": 0, "to": 2000})
            ex.append({"op": "sweep", "start": st, "payload": pay(cnt), "def": 9, "calls": tm, "from": 31000, "to": 34000})
            ex.append({"op": "sweep", "start": st, "payload": pay(cnt), "def": 9, "calls": tm, "from": 63500, "to": 65535})
    return regs_pipeline(
        run, "c04", ex,
        rule="windows (start x count x default order, incl. windows ending at 65535) x 23 accessors x byte/word orders x probe addresses chosen by the "
             "SPECIFICATION (window +-5, 0, 65535, start+32768 wrap probes) x string lengths; plus harness sweeps of every address for small windows with refusals "
             "logged as ranges; payload bytes pairwise distinct inside a sentinel-filled larger buffer; non-trivial = every call/range event (value compared or refusal demanded)",
        assumptions=["byte/word order conventions are the library's documented table (checked as DocExample in the spec)",
                     "numeric conversion from bit pattern to float/int (a Go cast) is trusted; the bit pattern is checked",
                     "DoubleRegister/QuadRegister are exercised with the four named orders only"],
        fresh=True, mcs=[("MC_Registers", "MC_Registers_Ref.cfg", False)])


@check("C13")
def c13(run):
    T = run.tier == "thorough"
    rnd = random.Random(run.seed)
    ex = []
    calls = [
        {"acc": "Uint16", "addr": 100, "order": 0, "len": 0, "bit": 0, "high": 0},
        {"acc": "StringWithByteOrder", "addr": 100, "order": 9, "len": 4, "bit": 0, "high": 0},
        {"acc": "StringWithByteOrder", "addr": 101, "order": 6, "len": 3, "bit": 0, "high": 0},
        {"acc": "Uint32WithByteOrder", "addr": 100, "order": 5, "len": 0, "bit": 0, "high": 0},
        {"acc": "Uint64WithByteOrder", "addr": 101, "order": 10, "len": 0, "bit": 0, "high": 0},
        {"acc": "Float32WithByteOrder", "addr": 103, "order": 0, "len": 0, "bit": 0, "high": 0},
        {"acc": "Bit", "addr": 102, "order": 0, "len": 0, "bit": 3, "high": 0},
        {"acc": "Byte", "addr": 104, "order": 0, "len": 0, "bit": 0, "high": 1},
        {"acc": "StringWithByteOrder", "addr": 103, "order": 0, "len": 5, "bit": 0, "high": 0},
        {"acc": "Int16", "addr": 105, "order": 0, "len": 0, "bit": 0, "high": 0},
    ]
    for _ in range(400 if T else 60):
        idx = list(range(len(calls)))
        rounds = []
        for _ in range(3):
            rnd.shuffle(idx)
            rounds.append(list(idx[:rnd.randint(1, len(idx))]))
        ex.append({"op": "extract", "start": 100, "payload": pay(5), "calls": calls, "rounds": rounds})
    return regs_pipeline(
        run, "c13", ex,
        rule="ALL call histories of length 1..3 (thorough: 1..4 over the first 10) over 18 representative accessor calls (overlapping string / 16 / 32 / 64-bit reads, both "
             "string byte orders) on one shared window, plus ExtractFields rounds with seeded field orders on one shared response; after every call the driver snapshots the payload; "
             "non-trivial = every call/extract event (result compared with the value of the ORIGINAL payload and snapshot compared with it)",
        assumptions=["payload content: one pairwise-distinct pattern and one with NUL bytes"],
        fresh=False, mcs=[("MC_Registers", "MC_Registers_Ref.cfg", False), ("MC_Registers", "MC_Registers_Swap.cfg", True)])


# ---------------------------------------------------------------- splitter family
def split_confirm(run):
    state = {"n": 0}

    def confirm(v):
        e = v.get("event") or {}
        state["n"] += 1
        if state["n"] > 15:
            return "confirmed"
        if e.get("ev") == "split":
            case = {"op": "split", "target": e["target"], "fields": e["fields"], "e2e": False, "mem": 0}
        elif e.get("ev") == "extract":
            case = {"op": "split", "target": e["target"], "fields": e["req"]["fields"], "e2e": True, "mem": e["mem"]}
        else:
            return "confirmed"
        cp, tp = run.path("confirm-%d.cases" % state["n"]), run.path("confirm-%d.trace" % state["n"])
        with open(cp, "w") as f:
            f.write(json.dumps(case) + "\n")
        run.drive("split", cp, tp)
        vs, _ = run.validate("Trace_Split", "Trace_Split.cfg", tp, shards=1)
        v["context"] = {"replay_case": case, "family": "split", "trace_spec": "Trace_Split"}
        return "confirmed" if any(x["verdict"] == v["verdict"] for x in vs) else "unreproduced"
    return confirm


def random_fields(rnd, n, coil):
    servers = ["a:1", "b:2"]
    base = rnd.choice([0, 100, 1000, 30000, 65536 - 300, 65536 - 130])
    dense = rnd.random() < 0.5
    fs = []
    for i in range(n):
        if coil:
            addr = min(65535, base + (rnd.randint(0, 2100) if dense else rnd.randint(0, 5000)))
            fs.append({"server": rnd.choice(servers), "unit": rnd.choice([1, 2]), "addr": addr, "type": 14, "bit": 0, "high": 0, "len": 0, "order": 0, "name": "c%d" % i})
            continue
        ty = rnd.randint(1, 13)
        size = {7: 2, 8: 2, 11: 2, 9: 4, 10: 4, 12: 4}.get(ty, 1)
        ln = 0
        if ty == 13:
            ln = rnd.choice([1, 2, 3, 10, 11, 100, 248, 250])
            size = (ln + 1) // 2
        addr = base + (rnd.randint(0, 130) if dense else rnd.randint(0, 300))
        addr = max(0, min(65536 - size, addr))
        fs.append({"server": rnd.choice(servers), "unit": rnd.choice([1, 2]), "addr": addr, "type": ty, "bit": rnd.randint(0, 15), "high": rnd.randint(0, 1),
                   "len": ln, "order": rnd.choice([0, 5, 9, 6, 10]), "name": "f%d" % i})
    return fs


def split_pipeline(run, setname, extra_cases, rule, assumptions, mcs):
    cases, trace = run.path("cases.ndjson"), run.path("trace.ndjson")
    open(cases, "w").close()
    for module, cfg, expect in mcs:
        mc(run, module, cfg, expect_violation=expect, workers=8)
    ngen = gen_family(run, "Gen_Split", setname, cases)
    nextra = append_cases(cases, extra_cases)
    run.drive("split", cases, trace)
    verdicts, nev = run.validate("Trace_Split", "Trace_Split.cfg", trace)
    harness_bad = [v for v in verdicts if v["verdict"].startswith("harness-")]
    if harness_bad:
        raise Infra("the driver supplied a wrong device answer / malformed case: %s" % json.dumps(harness_bad[0])[:1500])
    kn, viol = vlib.settle(run, verdicts)
    ops = vlib.count_ops(trace, key="ev")
    errs = count_where(trace, lambda e: e.get("ev") == "split" and e.get("outcome") == "err")
    cov = {
        "states": run.tlc_stats["states"], "transitions": run.tlc_stats["transitions"],
        "traces_validated_against_impl": nev,
        "evaluations": nev,
        "distinct_nontrivial": count_where(trace, lambda e: (e.get("ev") == "split" and e.get("outcome") == "ok" and len(e.get("requests", [])) > 0) or e.get("ev") == "extract"),
        "rule": rule, "spec_generated_cases": ngen, "harness_random_cases": nextra, "events_by_kind": ops,
        "split_calls_returning_error": errs,
        "samples": vlib.sample_lines(trace, 3), "exhaustive": False,
    }
    return vlib.finish(run, "model_checking", cov, assumptions, kn, viol, confirm=split_confirm(run))


@check("C06")
def c06(run):
    T = run.tier == "thorough"
    rnd = random.Random(run.seed)
    ex = []
    for i in range(3000 if T else 400):
        coil = rnd.random() < 0.3
        fs = random_fields(rnd, rnd.randint(1, 40), coil)
        if rnd.random() < 0.2:
            fs += random_fields(rnd, rnd.randint(1, 5), not coil)
        fc = rnd.choice([1, 2]) if coil else rnd.choice([3, 4])
        ex.append({"op": "split", "target": {"fc": fc, "framing": rnd.choice(["tcp", "rtu"])}, "fields": fs, "e2e": False, "mem": 0})
    return split_pipeline(
        run, "c06", ex,
        rule="ALL sub-lists of size <= 3 (thorough: 4) of a 16-entry register menu and an 8-entry coil menu built around the limits (125/2000), the top of the address space, "
             "2 servers x 2 units, same-address fields of different width, x 4 targets each; special lists (duplicates, 125/126/128-register strings, one invalid definition per "
             "Validate rule, mixed kinds, both ends of the address space) x 8 targets; seeded random lists of up to 40 fields; non-trivial = split returned requests and every "
             "clause of C06 was evaluated on them (error outcomes are allowed by the statement and counted separately)",
        assumptions=["requests are compared as multisets (map iteration makes their order nondeterministic)",
                     "fields whose span would exceed address 65535 are not generated"],
        mcs=[("MC_Splitter", "MC_Splitter_Ref.cfg", False), ("MC_Splitter", "MC_Splitter_Wrap.cfg", True)])


@check("C05")
def c05(run):
    T = run.tier == "thorough"
    rnd = random.Random(run.seed + 7)
    ex = []
    for i in range(600 if T else 80):
        fs = random_fields(rnd, rnd.randint(1, 25), False)
        ex.append({"op": "split", "target": {"fc": rnd.choice([3, 4]), "framing": rnd.choice(["tcp", "rtu"])}, "fields": fs, "e2e": True, "mem": rnd.randint(0, 1)})
    return split_pipeline(
        run, "c05", ex,
        rule="field lists (menu sub-lists + special lists + seeded random lists) -> real builder -> for every produced request a device answer over the SPECIFICATION's memory function "
             "(validated by the monitor) complete and truncated by 1..4, qty/2, qty-1 registers -> real response parser -> ExtractFields strict and lenient; non-trivial = every "
             "extract event (each reported field compared with the value decoded directly from device memory at the field's own address)",
        assumptions=["device answers are computed by the harness from the same memory formula and validated by the monitor against the specification's device (mismatch = exit 2)",
                     "16-bit and narrower field types use wire order (Field documentation); order 0 means big endian high word first"],
        mcs=[])


# ---------------------------------------------------------------- client family
def case_of_reset(rs):
    return {"op": "exch", "client": rs["client"], "req": rs["req"], "reply": rs["reply"], "script": rs.get("script", []),
            "fault": rs["fault"], "hooks": rs["hooks"], "pair": rs["pair"]}


def client_confirm(run, trace):
    lines = None
    state = {"n": 0, "cache": {}}

    def confirm(v):
        nonlocal lines
        if v.get("static"):
            e = v.get("event") or {}
            v["context"] = {"replay_case": {"op": "sweep_explen", "fc": e.get("fc"), "framing": e.get("framing"), "unit": e.get("unit"), "addr": e.get("addr"),
                                            "waddr": e.get("waddr", 0), "tid": 1, "from": e.get("qty"), "to": e.get("qty"), "data": e.get("data"), "coils": e.get("coils")},
                            "family": "codec", "trace_spec": "Trace_Codec"}
            return "confirmed"
        if lines is None:
            lines = trace_lines(trace)
        i = v["line"]
        j = i
        while j >= 0 and '"ev":"reset"' not in lines[j]:
            j -= 1
        if j < 0:
            return "confirmed"
        rs = json.loads(lines[j])
        case = case_of_reset(rs)
        if rs.get("seqlen", 0) > 1:
            # a history of calls on one client: re-run the whole history up to and including this call
            k = j
            pos = rs["seqpos"]
            seq = [case]
            while pos > 0 and k > 0:
                k -= 1
                if '"ev":"reset"' in lines[k]:
                    r2 = json.loads(lines[k])
                    seq.insert(0, case_of_reset(r2))
                    pos -= 1
            case = {"op": "seq", "seq": seq}
        if rs["pair"] == 1:
            k = j - 1
            while k >= 0 and '"ev":"reset"' not in lines[k]:
                k -= 1
            case = {"op": "pair", "a": case_of_reset(json.loads(lines[k])), "b": case}
        v["context"] = {"replay_case": case, "family": "client", "trace_spec": "Trace_Client", "mode": "solo,timeout=2000"}
        key = json.dumps(case, sort_keys=True)
        if key in state["cache"]:
            return state["cache"][key]
        state["n"] += 1
        if state["n"] > 12:
            return "confirmed"
        cp, tp = run.path("confirm-%d.cases" % state["n"]), run.path("confirm-%d.trace" % state["n"])
        with open(cp, "w") as f:
            f.write(json.dumps(case) + "\n")
        # solo, unloaded, with a much larger total timeout: a timing-dependent rejection must reproduce
        run.drive("client", cp, tp, extra=["-mode", "solo,timeout=2000"])
        vs, _ = run.validate("Trace_Client", "Trace_Client.cfg", tp, shards=1)
        res = "confirmed" if any(x["verdict"] == v["verdict"] for x in vs) else "unreproduced"
        state["cache"][key] = res
        return res
    return confirm


def client_pipeline(run, setname, rule, assumptions, mcs, prop_filter=None, timeout_ms=250):
    cases, trace = run.path("cases.ndjson"), run.path("trace.ndjson")
    open(cases, "w").close()
    for module, cfg, expect in mcs:
        mc(run, module, cfg, expect_violation=expect, workers=8)
    ngen = gen_family(run, "Gen_Client", setname, cases)
    run.drive("client", cases, trace, extra=["-mode", "timeout=%d" % timeout_ms], timeout=3000)
    verdicts, nev = run.validate("Trace_Client", "Trace_Client.cfg", trace, resync_key='"pair":0')
    extra = getattr(run, "extra_verdicts", None)
    if extra:
        # verdicts of the static expected-length sweep (validated by Trace_Codec); they are not client exchanges,
        # so they carry their own confirmation context
        for v in extra:
            v["line"] = -1 - v["line"]
            v["static"] = True
        verdicts = verdicts + extra
    harness_bad = [v for v in verdicts if v["verdict"].startswith("harness-")]
    if harness_bad:
        raise Infra("driver/trace inconsistency: %s" % json.dumps(harness_bad[0])[:1500])
    kn, viol = vlib.settle(run, verdicts, prop_filter=prop_filter)
    ops = vlib.count_ops(trace, key="ev")
    cov = {
        "states": run.tlc_stats["states"], "transitions": run.tlc_stats["transitions"],
        "traces_validated_against_impl": ops.get("reset", 0),
        "evaluations": ops.get("reset", 0), "distinct_nontrivial": ops.get("return", 0),
        "rule": rule, "spec_generated_cases": ngen, "events_by_kind": ops,
        "samples": vlib.sample_lines(trace, 4), "exhaustive": False,
    }
    if getattr(run, "extra_events", None):
        cov["static_expected_length_events"] = run.extra_events
    return vlib.finish(run, "model_checking", cov, assumptions, kn, viol, confirm=client_confirm(run, trace))


CLIENT_ASSUME = ["the scripted transport (net.Conn / io.ReadWriteCloser) delivers exactly the scripted reads; a quiet line is emulated by reads that time out",
                 "quiet reads beyond the third are not logged (neither the read nor its hook call)",
                 "replies are built by the specification; payload content is a fixed pattern"]


def explen_static(run):
    """static half of C07: the length every accepted request reports vs. the specified reply length, for every quantity"""
    T = run.tier == "thorough"
    cases, trace = run.path("explen.cases"), run.path("explen.trace")
    ex = []
    for fr in ("tcp", "rtu"):
        for fc in (1, 2, 3, 4):
            hi = (2000 if fc <= 2 else 125)
            ex.append({"op": "sweep_explen", "fc": fc, "framing": fr, "unit": 1, "addr": 7, "tid": 1, "from": 0, "to": 65535 if T else hi + 50})
        ex.append({"op": "sweep_explen", "fc": 23, "framing": fr, "unit": 1, "addr": 7, "waddr": 9, "tid": 1, "from": 0, "to": 130})
        for fc in (5, 6, 15, 16, 17):
            ex.append({"op": "sweep_explen", "fc": fc, "framing": fr, "unit": 1, "addr": 7, "tid": 1, "from": 1, "to": 1, "data": [1, 2], "coils": [1, 0, 1]})
    with open(cases, "w") as f:
        for c in ex:
            f.write(json.dumps(c) + "\n")
    run.drive("codec", cases, trace)
    vs, n = run.validate("Trace_Codec", "Trace_Codec.cfg", trace, shards=4)
    return vs, n, trace


@check("C07")
def c07(run):
    run.extra_verdicts, run.extra_events, _ = explen_static(run)
    return client_pipeline(
        run, "c07",
        rule="10 request types x {TCP client, RTU-over-network client, serial client} x reply shapes (smallest, middle, largest legal, FC17 id/extra variants, exception replies) x "
             "ALL compositions of replies <= 9 (thorough 13) bytes, all single and double cuts up to 16 bytes, single cuts of long replies, each with and without empty timed-out reads "
             "((0,deadline); serial also (0,nil) and (0,EOF)); non-trivial = every exchange (its return is judged against the exchange specification)",
        assumptions=CLIENT_ASSUME, mcs=[("MC_ClientLoop", "MC_ClientLoop_Ref.cfg", False), ("MC_ClientLoop", "MC_ClientLoop_RefTCP.cfg", False),
                                    ("MC_ClientLoop", "MC_ClientLoop_Short.cfg", True), ("MC_ClientLoop", "MC_ClientLoop_Long.cfg", True)],
        prop_filter=["C07", "C08", "C12"])


@check("C08")
def c08(run):
    return client_pipeline(
        run, "c08",
        rule="every request type x 3 clients x every prefix length of its smallest reply (sampled prefixes of the largest) x {stall, EOF, I/O error, I/O error after an empty read, cancel} "
             "+ write error, not connected, nil request, oversize deliveries; non-trivial = every exchange (bounded-time return with the classified error is demanded)",
        assumptions=CLIENT_ASSUME + ["'bounded time' is checked as configured total timeout + 1.5 s, watchdog 10 s = hang; timing rejections must reproduce solo with a 2 s timeout"],
        mcs=[("MC_ClientLoop", "MC_ClientLoop_Ref.cfg", False), ("MC_ClientLoop", "MC_ClientLoop_RefTCP.cfg", False)], prop_filter=["C07", "C08", "C12"])


@check("C12")
def c12(run):
    return client_pipeline(
        run, "c12",
        rule="RTU replies of all 10 functions + exception replies x every single-bit flip, byte substitutions {00, FF, b xor 80}, every truncation, extensions, 2-byte corruptions, "
             "delivered whole, split at byte 5 and split at byte 2 with an empty read, x {RTU network client, serial client}; the monitor itself decides CRC consistency of what was read; "
             "non-trivial = every exchange",
        assumptions=CLIENT_ASSUME, mcs=[], prop_filter=["C07", "C08", "C12"])


@check("C19")
def c19(run):
    return client_pipeline(
        run, "c19",
        rule="scripts of C07 (<= 4 steps; thorough 6) and C08 run as pairs: without hooks, then with recording hooks; the monitor checks before-write bytes and order, one after-read "
             "call per transport read with identical (bytes, n, err), before-parse = concatenation of reads, and equal returns within a pair; non-trivial = every exchange with hooks",
        assumptions=CLIENT_ASSUME + ["hook arguments are copied at call time (they alias the receive buffer)"],
        mcs=[], prop_filter=["C07", "C08", "C12"])


# ---------------------------------------------------------------- C14 shared client
def mutex_confirm(run, trace):
    lines = None
    state = {"n": 0}

    def confirm(v):
        nonlocal lines
        if lines is None:
            lines = trace_lines(trace)
        j = v["line"]
        while j >= 0 and '"ev":"reset"' not in lines[j]:
            j -= 1
        if j < 0:
            return "confirmed"
        rs = json.loads(lines[j])
        if rs["mode"] != "schedule":
            return "confirmed"     # free-running schedule: not replayable; the event itself is the evidence
        steps = []
        k = j + 1
        while k < len(lines) and '"ev":"reset"' not in lines[k]:
            e = json.loads(lines[k])
            if e["ev"] == "sched":
                steps.append({"a": e["a"], "p": e["p"]})
            k += 1
        case = {"op": "schedule", "n": rs["n"], "m": rs["m"], "admin": rs["admin"], "steps": steps, "client": rs["client"]}
        v["context"] = {"replay_case": case, "family": "mutex", "trace_spec": "Trace_Mutex"}
        state["n"] += 1
        if state["n"] > 8:
            return "confirmed"
        cp, tp = run.path("confirm-%d.cases" % state["n"]), run.path("confirm-%d.trace" % state["n"])
        with open(cp, "w") as f:
            f.write(json.dumps(case) + "\n")
        run.drive("mutex", cp, tp, extra=["-mode", "solo"])
        vs, _ = run.validate("Trace_Mutex", "Trace_Mutex.cfg", tp, shards=1)
        return "confirmed" if vs else "unreproduced"
    return confirm


@check("C14")
def c14(run):
    T = run.tier == "thorough"
    rnd = random.Random(run.seed)
    mc(run, "ClientMutex", "MC_ClientMutex_Lock.cfg")
    mc(run, "ClientMutex", "MC_ClientMutex_NoLock.cfg", expect_violation=True)
    sched_admin, sched_na = run.path("sched-admin.ndjson"), run.path("sched-na.ndjson")
    open(sched_admin, "w").close()
    open(sched_na, "w").close()
    n1 = run.gen("ClientMutex", "Gen_ClientMutex.cfg", sched_admin)
    n2 = run.gen("ClientMutex", "Gen_ClientMutex_NA.cfg", sched_na)
    la, ln = trace_lines(sched_admin), trace_lines(sched_na)
    rnd.shuffle(la)
    rnd.shuffle(ln)
    cases = run.path("cases.ndjson")
    nsched = 0
    with open(cases, "w") as f:
        for line in la[:(len(la) if T else 500)]:
            c = json.loads(line)
            c["client"] = "tcp"
            f.write(json.dumps(c) + "\n")
            nsched += 1
        for line in ln[:(len(ln) if T else 150)]:
            c = json.loads(line)
            c["client"] = "rtu"
            f.write(json.dumps(c) + "\n")
            nsched += 1
        for line in ln[:(120 if T else 24)]:
            c = json.loads(line)
            c["client"] = "serial"
            f.write(json.dumps(c) + "\n")
            nsched += 1
    trace = run.path("trace.ndjson")
    run.drive("mutex", cases, trace, timeout=3000)
    # free-running part with the race detector
    rcases, rtrace = run.path("rcases.ndjson"), run.path("rtrace.ndjson")
    nrand = 0
    with open(rcases, "w") as f:
        for i in range(60 if T else 12):
            for cl, n, m, adm in (("tcp", 2, 20, True), ("tcp", 4, 10, True), ("tcp", 16, 5, False), ("rtu", 4, 10, True), ("serial", 4, 3, False)):
                f.write(json.dumps({"op": "random", "n": n, "m": m, "admin": adm, "client": cl, "seed": rnd.randint(1, 1 << 30)}) + "\n")
                nrand += 1
    p = run.drive("mutex", rcases, rtrace, race=True, timeout=3000, env={"GORACE": "halt_on_error=0 exitcode=0"})
    reps = vlib.library_races(p.stderr)
    races = len(reps)
    lib_race = races > 0
    with open(trace, "a") as f:
        f.write(open(rtrace).read())
        if lib_race:
            f.write(jd({"ev": "reset", "mode": "race", "client": "tcp", "n": 0, "m": 0, "admin": False, "closer": 0, "connector": 0}) + "\n")
            f.write(jd({"ev": "race", "report": reps[0]}) + "\n")
    verdicts, nev = run.validate("Trace_Mutex", "Trace_Mutex.cfg", trace, resync_key='"ev":"reset"')
    kn, viol = vlib.settle(run, verdicts)
    ops = vlib.count_ops(trace, key="ev")
    cov = {
        "states": run.tlc_stats["states"], "transitions": run.tlc_stats["transitions"],
        "traces_validated_against_impl": ops.get("reset", 0),
        "evaluations": ops.get("reset", 0), "distinct_nontrivial": ops.get("arrive", 0),
        "rule": "model: all interleavings of N=3 callers x M=2 calls + Close + Connect goroutines (lock), NoLock variant must fail; implementation: complete schedules of the locked "
                "model (N=2,M=1 with Close/Connect; N=3,M=1 without) replayed through a gated transport on Client (TCP, RTU) and SerialClient, every goroutine arrival at a transport "
                "operation validated by TLC against the specification; plus free-running seeded runs under the Go race detector; non-trivial = arrivals at transport operations",
        "schedules_generated": n1 + n2, "schedules_replayed": nsched, "free_running_runs": nrand, "race_reports": races, "events_by_kind": ops,
        "samples": vlib.sample_lines(trace, 3), "exhaustive": False,
    }
    return vlib.finish(run, "model_checking", cov,
                       ["data-race freedom is observed by the Go race detector (not expressible in TLA+); a report inside the library is an event no specification action allows",
                        "the gated transport attributes a Read to the goroutine whose Write preceded it on that connection"],
                       kn, viol, confirm=mutex_confirm(run, trace))


# ---------------------------------------------------------------- server stream family (C15, C16)
def stream_confirm(run, trace):
    lines = None
    state = {"n": 0}

    def confirm(v):
        nonlocal lines
        if lines is None:
            lines = trace_lines(trace)
        i = v["line"]
        j = i
        while j >= 0 and '"ev":"reset"' not in lines[j]:
            j -= 1
        if j < 0:
            return "confirmed"
        rs = json.loads(lines[j])
        segs = []
        k = j + 1
        while k < len(lines) and '"ev":"reset"' not in lines[k]:
            e = json.loads(lines[k])
            if e["ev"] == "segment":
                segs.append(len(e["bytes"]))
            k += 1
        case = {"op": "stream", "frames": rs["frames"], "segs": segs, "handler": rs["handler"], "e2e": rs["mode"] == "e2e"}
        v["context"] = {"replay_case": case, "family": "stream", "trace_spec": "Trace_Stream"}
        state["n"] += 1
        if state["n"] > 10:
            return "confirmed"
        cp, tp = run.path("confirm-%d.cases" % state["n"]), run.path("confirm-%d.trace" % state["n"])
        with open(cp, "w") as f:
            f.write(json.dumps(case) + "\n")
        run.drive("stream", cp, tp)
        vs, _ = run.validate("Trace_Stream", "Trace_Stream.cfg", tp, shards=1)
        return "confirmed" if any(x["verdict"] == v["verdict"] for x in vs) else "unreproduced"
    return confirm


def stream_pipeline(run, setname, rule, assumptions, mcs, prop_filter=None):
    cases, trace = run.path("cases.ndjson"), run.path("trace.ndjson")
    open(cases, "w").close()
    for module, cfg, expect in mcs:
        mc(run, module, cfg, expect_violation=expect)
    ngen = gen_family(run, "Gen_Stream", setname, cases)
    run.drive("stream", cases, trace, extra=["-mode", "direct"])
    # end-to-end cases run in their own process: if malformed input or a panicking handler terminated the
    # process, that is an observation about the library, not infrastructure trouble
    t2 = run.path("trace-e2e.ndjson")
    crashed = None
    try:
        run.drive("stream", cases, t2, extra=["-mode", "e2e"], timeout=1200)
    except Infra as e:
        if "panic:" in str(e) or "fatal error" in str(e):
            crashed = str(e)
        else:
            raise
    with open(trace, "a") as f:
        if os.path.exists(t2):
            f.write(open(t2).read())
    verdicts, nev = run.validate("Trace_Stream", "Trace_Stream.cfg", trace, resync_key='"ev":"reset"')
    harness_bad = [v for v in verdicts if v["verdict"].startswith("harness-")]
    if harness_bad:
        raise Infra("driver trouble: %s" % json.dumps(harness_bad[0])[:1500])
    if crashed:
        verdicts.append({"line": -1, "verdict": "server-process-terminated", "event": {"ev": "crash", "stderr": crashed[-1500:]}})
    kn, viol = vlib.settle(run, verdicts, prop_filter=prop_filter)
    ops = vlib.count_ops(trace, key="ev")
    cov = {
        "states": run.tlc_stats["states"], "transitions": run.tlc_stats["transitions"],
        "traces_validated_against_impl": ops.get("reset", 0),
        "evaluations": ops.get("reset", 0), "distinct_nontrivial": ops.get("segment", 0),
        "rule": rule, "spec_generated_cases": ngen, "events_by_kind": ops,
        "end_to_end_streams": count_where(trace, lambda e: e.get("ev") == "reset" and e.get("mode") == "e2e"),
        "samples": vlib.sample_lines(trace, 3), "exhaustive": False,
    }
    return vlib.finish(run, "model_checking", cov, assumptions, kn, viol, confirm=stream_confirm(run, trace))


@check("C15")
def c15(run):
    return stream_pipeline(
        run, "c15",
        rule="streams of 1..3 legal request frames of the 10 functions x cut sets (ALL cut sets of the 12-byte FC3 and 8-byte FC17 frames [thorough: of every frame <= 13 bytes], "
             "<= 2 cuts for the others, <= 2 (3) cuts over two frames, <= 2 over three) fed to (*ModbusTCPAssembler).ReceiveRead segment by segment, and a sample through server.Server "
             "over an in-memory listener; after EVERY segment the monitor requires output = in-order replies to exactly the completely delivered frames; non-trivial = every segment",
        assumptions=["the handler is the deterministic device of ServerStream.tla (implemented in the harness, its answers are what the monitor computes independently)",
                     "only streams of supported-function frames are judged, as the property quantifies"],
        mcs=[("MC_ServerStream", "MC_ServerStream_Ref.cfg", False), ("MC_ServerStream", "MC_ServerStream_One.cfg", True), ("MC_ServerStream", "MC_ServerStream_Early.cfg", True)],
        prop_filter=["C15", "C16"])


@check("C16")
def c16(run):
    return stream_pipeline(
        run, "c16",
        rule="single request frames built by the SPECIFICATION: legal (10 functions), unsupported function codes, out-of-limit quantities/values, bodies truncated below the function's "
             "fixed part with a consistent length field, inconsistent byte counts x handler behaviours {device response, typed error, generic error, panic, nil}; direct ReceiveRead and "
             "end-to-end in a separate process with a second connection that must keep working; non-trivial = every segment",
        assumptions=["a reply that is not sent is not judged (the statement constrains the replies that are sent); a panic escaping a direct ReceiveRead call with a panicking/nil handler is recorded, not judged"],
        mcs=[], prop_filter=["C15", "C16"])


# ---------------------------------------------------------------- C17 server lifecycle
def jd(o):
    return json.dumps(o, separators=(",", ":"))


def life_drive(run, sub_cases, tag, race=False):
    """runs `drive life` on a list of case dicts in one child process; a crash of the process is an
    observation about the scenario that was running (recorded as a crash event), not infrastructure trouble"""
    import subprocess
    binp = run.build(race=race)
    cp = run.path("life-%s.cases" % tag)
    with open(cp, "w") as f:
        for c in sub_cases:
            f.write(json.dumps(c) + "\n")
    out_all = run.path("life-%s.trace" % tag)
    open(out_all, "w").close()
    start = 0
    races = 0
    guard = 0
    env = dict(os.environ)
    if race:
        env["GORACE"] = "halt_on_error=0 exitcode=0"
    while start < len(sub_cases) and guard < 40:
        guard += 1
        tp = run.path("life-%s-%d.part" % (tag, start))
        try:
            p = subprocess.run([binp, "life", "-in", cp, "-out", tp, "-seed", str(run.seed), "-mode", "start=%d" % start],
                               capture_output=True, text=True, timeout=2400, env=env)
        except subprocess.TimeoutExpired:
            raise Infra("life driver timed out")
        part = open(tp).read() if os.path.exists(tp) else ""
        lines = part.splitlines()
        reps = vlib.library_races(p.stderr) if race else []
        if reps:
            races += len(reps)
            lines.append(jd({"ev": "reset", "idx": -1, "mode": "race", "k": 0, "onServe": False, "onError": False, "onAccept": False, "onClose": False, "rejects": []}))
            lines.append(jd({"ev": "race", "report": reps[0]}))
            lines.append(jd({"ev": "end", "served": True, "dialAfter": False, "open": []}))
        if p.returncode == 0:
            with open(out_all, "a") as f:
                f.write("\n".join(lines) + ("\n" if lines else ""))
            break
        crashed = ("panic:" in p.stderr) or ("fatal error" in p.stderr) or ("SIGSEGV" in p.stderr)
        if not crashed:
            raise Infra("life driver exited %d:\n%s" % (p.returncode, p.stderr[-3000:]))
        # the scenario that was running: the last reset line
        last = None
        keep = []
        for ln in lines:
            try:
                e = json.loads(ln)
            except Exception:
                continue          # torn last line
            keep.append(ln)
            if e.get("ev") == "reset":
                last = e["idx"]
        if last is None:
            raise Infra("life driver crashed before any scenario:\n" + p.stderr[-3000:])
        keep.append(jd({"ev": "crash", "stderr": p.stderr[-1800:]}))
        keep.append(jd({"ev": "end", "served": False, "dialAfter": False, "open": []}))
        with open(out_all, "a") as f:
            f.write("\n".join(keep) + "\n")
        start = last + 1
    return out_all, races


def life_pipeline(run):
    import concurrent.futures as cf
    T = run.tier == "thorough"
    rnd = random.Random(run.seed)
    # (A) design level
    mc(run, "ServerLifecycle", "MC_Life_Ref.cfg", workers=12, xmx="12g")
    for v in ("Guard", "Cancel", "Claim", "Straggler"):
        mc(run, "ServerLifecycle", "MC_Life_%s.cfg" % v, expect_violation=True, workers=8, xmx="8g")
    # (B) schedules: random walks of the model structured like the code (all switches off)
    sched = run.path("sched.ndjson")
    open(sched, "w").close()
    res = run.tlc("ServerLifecycle", "Gen_Life.cfg", workers=1, timeout=900, xmx="4g", check=False,
                  extra=["-simulate", "num=%d" % (30000 if T else 4000), "-depth", "70", "-seed", str(run.seed)])
    seen = set()
    scheds = []
    for js in vlib.case_strings(res["stdout"]):
        if js not in seen:
            seen.add(js)
            scheds.append(json.loads(js))
    if len(scheds) < 50:
        raise Infra("schedule generation produced only %d schedules:\n%s" % (len(scheds), res["stdout"][-2000:]))
    log("[gen] ServerLifecycle/Gen_Life.cfg: %d distinct complete schedules from random walks" % len(scheds))
    rnd.shuffle(scheds)
    # prefer schedules that contain a shutdown or cancel, long ones first within the budget
    scheds.sort(key=lambda s: -len(s["steps"]))
    pick = scheds[:(6000 if T else 640)]
    # directed schedules: all merges of two processes' steps around the critical sections of the as-implemented variants
    dpath = run.path("directed.ndjson")
    open(dpath, "w").close()
    nd = run.gen("Gen_LifeDirected", "Gen_LifeDirected.cfg", dpath)
    directed = [json.loads(x) for x in trace_lines(dpath)]
    rnd.shuffle(directed)
    if not T:
        directed = directed[:520]
    pick = pick + directed
    rnd.shuffle(pick)
    for i, s in enumerate(pick):
        s["onServe"] = bool(i & 1)
        s["onError"] = bool(i & 2)
    nshard = 8
    shards = [pick[i::nshard] for i in range(nshard)]
    # (C) gated replay + free-running runs under the race detector
    rcases = []
    for i in range(1200 if T else 160):
        cfgbits = i % 16
        k = (2, 4, 6)[i % 3]
        rej = [x for x in range(1, k + 1) if rnd.random() < 0.25] if cfgbits & 4 else []
        rcases.append({"op": "liferand", "k": k, "onServe": bool(cfgbits & 1), "onError": bool(cfgbits & 2), "onAccept": bool(cfgbits & 4),
                       "onClose": bool(cfgbits & 8), "rejects": rej, "steps": [], "seed": rnd.randint(1, 1 << 30),
                       "tcp": (i // 16) % 2 == 1})     # every other block of 16 configurations over a real loopback TCP listener
    # idle server shut down right away / from within OnServeFunc (start-up vs Shutdown)
    for i in range(24 if T else 8):
        rcases.append({"op": "liferand", "k": 0, "onServe": True, "onError": bool(i & 1), "onAccept": bool(i & 2), "onClose": bool(i & 4), "rejects": [],
                       "steps": [], "seed": rnd.randint(1, 1 << 30), "sdOnServe": i % 2 == 0})
    rshards = [rcases[i::4] for i in range(4)]
    run.build()
    run.build(race=True)
    outs, races = [], 0
    t0 = time.time()
    with cf.ThreadPoolExecutor(max_workers=12) as ex:
        futs = [ex.submit(life_drive, run, sh, "g%d" % i, False) for i, sh in enumerate(shards)]
        futs += [ex.submit(life_drive, run, sh, "r%d" % i, True) for i, sh in enumerate(rshards)]
        for f in futs:
            o, r = f.result()
            outs.append(o)
            races += r
    log("[drive] life: %d gated schedules, %d free-running runs in %.1fs" % (len(pick), len(rcases), time.time() - t0))
    trace = run.path("trace.ndjson")
    with open(trace, "w") as f:
        for o in outs:
            f.write(open(o).read())
    verdicts, nev = run.validate("Trace_Life", "Trace_Life.cfg", trace, resync_key='"ev":"reset"')
    kn, viol = vlib.settle(run, verdicts)
    ops = vlib.count_ops(trace, key="ev")
    cov = {
        "states": run.tlc_stats["states"], "transitions": run.tlc_stats["transitions"],
        "traces_validated_against_impl": ops.get("reset", 0),
        "evaluations": ops.get("reset", 0), "distinct_nontrivial": ops.get("hook", 0),
        "rule": "model: 2 connections x all callback configurations x rejects x shutdown / cancel at every point, all interleavings (reference design holds, the four as-implemented "
                "variants yield counterexamples); implementation: complete schedules sampled by TLC random walks of the code-structured model replayed through the gated hooks "
                "(accept loop / connection goroutines / Shutdown block at every linearization point until the schedule gives them a step), plus free-running seeded runs with 2..6 clients, "
                "16 callback configurations, handler delays, under the race detector; each scenario runs in a child process so that a crash is observed; non-trivial = hook events",
        "schedules_generated": len(scheds) + nd, "directed_schedules_replayed": len(directed), "schedules_replayed": len(pick), "free_running_runs": len(rcases), "race_reports": races, "events_by_kind": ops,
        "samples": vlib.sample_lines(trace, 3), "exhaustive": False,
    }

    lines = None

    def confirm(v):
        nonlocal lines
        if lines is None:
            lines = trace_lines(trace)
        j = v["line"]
        while j >= 0 and '"ev":"reset"' not in lines[j]:
            j -= 1
        if j < 0:
            return "confirmed"
        rs = json.loads(lines[j])
        if rs["mode"] == "race" or (v.get("event") or {}).get("ev") == "crash":
            return "confirmed"
        steps = []
        k = j + 1
        while k < len(lines) and '"ev":"reset"' not in lines[k]:
            k += 1
        # find the original case by configuration + recorded ops is fragile; re-run from the case lists
        pool = pick if rs["mode"] == "life" else rcases
        cand = None
        for sh_i, sh in enumerate(shards if rs["mode"] == "life" else rshards):
            if rs["idx"] < len(sh):
                c = sh[rs["idx"]]
                if all(c.get(x) == rs.get(x) for x in ("k", "onServe", "onError", "onAccept", "onClose")) and list(c.get("rejects", [])) == list(rs.get("rejects", [])):
                    # several shards can match on configuration: compare the recorded client ops with the schedule
                    ops_rec = [(json.loads(x)["a"], json.loads(x)["p"]) for x in lines[j + 1:k] if '"ev":"op"' in x]
                    ops_case = [(s["a"], s["p"]) for s in c["steps"] if s["a"] in ("dial", "send", "hangup", "cancel", "shutdown")]
                    if rs["mode"] != "life" or ops_rec[:len(ops_case)] == ops_case or not ops_case:
                        cand = c
                        break
        if cand is None:
            return "confirmed"
        v["context"] = {"replay_case": cand, "family": "life", "trace_spec": "Trace_Life"}
        for attempt in range(1 if rs["mode"] == "life" else 4):
            o, _ = life_drive(run, [cand], "confirm-%d-%d" % (v["line"], attempt), race=False)
            vs, _ = run.validate("Trace_Life", "Trace_Life.cfg", o, shards=1)
            if any(x["verdict"] == v["verdict"] for x in vs):
                return "confirmed"
        return "unreproduced"

    state = {"n": 0}

    def confirm_limited(v):
        state["n"] += 1
        if state["n"] > 8:
            return "confirmed"
        return confirm(v)

    return vlib.finish(run, "model_checking", cov,
                       ["gated replay uses an in-memory listener (net.Pipe connections that, like TCP ones, report net.ErrClosed on a second Close); half of the free-running runs use a real loopback TCP listener",
                        "the count given to the accept callback may be the number of live connections at any instant between the accept loop's return from Accept and the callback",
                        "data races and crashes are observed by the Go race detector / the child process exit, not expressible in TLA+",
                        "a connection accepted but not yet served when the context is cancelled is not judged (DESIGN 2.6)"],
                       kn, viol, confirm=confirm_limited)


@check("C17")
def c17(run):
    return life_pipeline(run)
