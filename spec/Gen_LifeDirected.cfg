INIT Init
NEXT Next
INVARIANT Emit
CHECK_DEADLOCK FALSE
