SPECIFICATION Spec
CONSTANTS Client = "rtu" XMode = "spec"
INVARIANT DoneOK
PROPERTY Terminates
