INIT Init
NEXT Next
CONSTANT InPlaceSwap = TRUE
INVARIANT Repeatable
CHECK_DEADLOCK FALSE
