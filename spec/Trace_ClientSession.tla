------------------------- MODULE Trace_ClientSession -------------------------
(***************************************************************************)
(* Trace validation for ClientSession: the logged steps of a replayed      *)
(* schedule (send k / deliver j / return k with the reply the call got /   *)
(* timeout k) are applied to the AS-IMPLEMENTED model (MatchReply = FALSE  *)
(* in the cfg).  A step the model does not allow in its current state, or  *)
(* a call returning something else than the model's next frame, is a       *)
(* deviation of the code from the model; a call returning the reply to     *)
(* another request is reported as the recorded observation E03-F1.         *)
(***************************************************************************)
EXTENDS ClientSession, IOUtils

Trace == ndJsonDeserialize(IOEnv.TRACE_FILE)
VARIABLES l
tvars == <<l, next, waiting, owed, wire, result, hist>>

Judge(e) ==
    IF e.ev = "reset" THEN "ok"
    ELSE IF e.ev # "step" THEN "unknown-event"
    ELSE CASE e.a = "send"    -> IF waiting = 0 THEN "ok" ELSE "extra:call-started-while-another-is-in-progress"
           [] e.a = "deliver" -> IF owed # <<>> /\ Head(owed) = e.k THEN "ok" ELSE "harness-delivery-out-of-order"
           [] e.a = "timeout" -> IF waiting = e.k /\ wire = <<>> THEN (IF e.got = -1 THEN "ok" ELSE "extra:call-returned-a-reply-although-nothing-was-delivered")
                                 ELSE IF waiting = e.k /\ e.got = -1 THEN "extra:call-timed-out-although-a-complete-frame-was-waiting"
                                 ELSE "extra:client-session-step-not-allowed-by-the-model"
           [] e.a = "return"  -> IF waiting # e.k \/ wire = <<>> THEN "extra:client-session-step-not-allowed-by-the-model"
                                 ELSE IF e.got # Head(wire) THEN "extra:call-returned-something-else-than-the-next-frame-on-the-connection"
                                 ELSE IF e.got # e.k THEN "known:E03-F1"
                                 ELSE "ok"
           [] OTHER -> "unknown-step"

TInit == l = 1 /\ Init
TNext ==
    /\ l <= Len(Trace)
    /\ LET e == Trace[l] v == Judge(e) IN
       /\ IF v = "ok" THEN TRUE ELSE PrintT(<<"VERDICT", l, v>>)
       /\ IF e.ev = "reset" THEN next' = 1 /\ waiting' = 0 /\ owed' = <<>> /\ wire' = <<>> /\ result' = [k \in Calls |-> 0] /\ hist' = <<>>
          ELSE IF e.ev = "step" /\ e.a = "send" /\ waiting = 0 /\ next <= NCalls THEN Send
          ELSE IF e.ev = "step" /\ e.a = "deliver" /\ owed # <<>> THEN Deliver
          ELSE IF e.ev = "step" /\ e.a = "return" /\ waiting # 0 /\ wire # <<>> THEN Read
          ELSE IF e.ev = "step" /\ e.a = "timeout" /\ waiting # 0 /\ wire = <<>> THEN Timeout
          ELSE UNCHANGED <<next, waiting, owed, wire, result, hist>>
    /\ l' = l + 1
TSpec == TInit /\ [][TNext]_tvars
AllConsumed == TLCGet("stats").diameter - 1 = Len(Trace)
=============================================================================
