SPECIFICATION Spec
CONSTANTS L = 4 AddrMax = 9 N = 3 Wrap = FALSE M = 16 Gs = {1, 2}
INVARIANT DoneOK
CHECK_DEADLOCK FALSE
