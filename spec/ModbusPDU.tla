----------------------------- MODULE ModbusPDU -----------------------------
(***************************************************************************)
(* Modbus application data units, written from "MODBUS Application        *)
(* Protocol Specification V1.1b3" (sections 4.1, 6.1-6.6, 6.11, 6.12,      *)
(* 6.13, 6.17, 7) and "MODBUS Messaging on TCP/IP Implementation Guide"    *)
(* (MBAP header, section 3.1.3) and "MODBUS over Serial Line" (RTU frame,  *)
(* section 2.5.1).  Nothing here is derived from the Go code except the    *)
(* layout of the Read-Server-ID (FC17) response, which the standard leaves *)
(* device specific and for which the library's documented layout is used.  *)
(*                                                                         *)
(* Bytes are naturals 0..255, frames are sequences of bytes.               *)
(***************************************************************************)
EXTENDS Integers, Sequences, CRC16

----------------------------------------------------------------------------
(* Basic encodings *)
Hi(x) == x \div 256
Lo(x) == x % 256
U16(x) == <<Hi(x), Lo(x)>>                    \* big-endian 16-bit field
W(s, i) == s[i] * 256 + s[i + 1]              \* read big-endian 16-bit field at i

IsByteSeq(s) == \A i \in 1..Len(s) : s[i] \in 0..255

SupportedFC == {1, 2, 3, 4, 5, 6, 15, 16, 17, 23}

MaxTCPADU == 260   \* 7 + 253
MaxRTUADU == 256   \* 1 + 253 + 2
MaxPDU    == 253

CoilOn  == 65280   \* 0xFF00
CoilOff == 0

\* per-function quantity limits (V1.1b3 6.1 .. 6.17)
MaxReadCoils      == 2000   \* 0x7D0
MaxReadRegisters  == 125    \* 0x7D
MaxWriteCoils     == 1968   \* 0x7B0
MaxWriteRegisters == 123    \* 0x7B
MaxRWRead         == 125    \* 0x7D
MaxRWWrite        == 121    \* 0x79

CeilDiv8(n) == (n + 7) \div 8

----------------------------------------------------------------------------
(* Coil packing: coil i (0-based) is bit (i mod 8) of byte (i div 8), LSB  *)
(* first; unused high bits of the last byte are zero (6.1, 6.11).          *)
RECURSIVE Pow2(_)
Pow2(n) == IF n = 0 THEN 1 ELSE 2 * Pow2(n - 1)

BitOf(byte, k) == (byte \div Pow2(k)) % 2       \* k in 0..7

RECURSIVE PackByteFrom(_, _, _)
\* value of the byte holding coils base+1 .. base+8 of the 1-based sequence cs (entries 0/1)
PackByteFrom(cs, base, k) ==
    IF k = 8 \/ base + k + 1 > Len(cs) THEN 0
    ELSE cs[base + k + 1] * Pow2(k) + PackByteFrom(cs, base, k + 1)

PackCoils(cs) == [j \in 1..CeilDiv8(Len(cs)) |-> PackByteFrom(cs, 8 * (j - 1), 0)]

\* coil i (0-based) of a packed payload
CoilAt(payload, i) == BitOf(payload[(i \div 8) + 1], i % 8)

UnpackCoils(payload, n) == [i \in 1..n |-> CoilAt(payload, i - 1)]

----------------------------------------------------------------------------
(* Requests.  One record shape for all ten functions:                      *)
(*   fc, unit, addr, qty, data, waddr, wqty                                *)
(*   FC1-4 : addr, qty                                                     *)
(*   FC5   : addr, qty = raw output value (0xFF00 / 0x0000)                *)
(*   FC6   : addr, data = the two register bytes                           *)
(*   FC15  : addr, qty = number of coils, data = packed coils              *)
(*   FC16  : addr, qty = number of registers, data = register bytes        *)
(*   FC17  : nothing                                                       *)
(*   FC23  : addr/qty = read part, waddr/wqty = write part, data = bytes   *)
Req(fc, unit, addr, qty, data, waddr, wqty) ==
    [fc |-> fc, unit |-> unit, addr |-> addr, qty |-> qty, data |-> data,
     waddr |-> waddr, wqty |-> wqty]

LegalReq(r) ==
    /\ r.unit \in 0..255
    /\ r.addr \in 0..65535
    /\ IsByteSeq(r.data)
    /\ CASE r.fc \in {1, 2}  -> r.qty \in 1..MaxReadCoils
         [] r.fc \in {3, 4}  -> r.qty \in 1..MaxReadRegisters
         [] r.fc = 5         -> r.qty \in {CoilOn, CoilOff}
         [] r.fc = 6         -> Len(r.data) = 2
         [] r.fc = 15        -> r.qty \in 1..MaxWriteCoils /\ Len(r.data) = CeilDiv8(r.qty)
         [] r.fc = 16        -> r.qty \in 1..MaxWriteRegisters /\ Len(r.data) = 2 * r.qty
         [] r.fc = 17        -> TRUE
         [] r.fc = 23        -> /\ r.qty \in 1..MaxRWRead
                                /\ r.waddr \in 0..65535
                                /\ r.wqty \in 1..MaxRWWrite
                                /\ Len(r.data) = 2 * r.wqty
         [] OTHER            -> FALSE

\* PDU = function code + function specific part
ReqPDU(r) ==
    CASE r.fc \in {1, 2, 3, 4, 5} -> <<r.fc>> \o U16(r.addr) \o U16(r.qty)
      [] r.fc = 6                 -> <<6>> \o U16(r.addr) \o r.data
      [] r.fc \in {15, 16}        -> <<r.fc>> \o U16(r.addr) \o U16(r.qty) \o <<Len(r.data)>> \o r.data
      [] r.fc = 17                -> <<17>>
      [] r.fc = 23                -> <<23>> \o U16(r.addr) \o U16(r.qty) \o U16(r.waddr) \o U16(r.wqty)
                                       \o <<Len(r.data)>> \o r.data

\* MBAP: transaction id, protocol id 0, length = unit id + PDU, unit id
TCPADU(tid, unit, pdu) == U16(tid) \o <<0, 0>> \o U16(Len(pdu) + 1) \o <<unit>> \o pdu
\* RTU: address, PDU, CRC low byte first
RTUADU(unit, pdu) == WithCRC(<<unit>> \o pdu)

ReqADU(framing, tid, r) ==
    IF framing = "tcp" THEN TCPADU(tid, r.unit, ReqPDU(r)) ELSE RTUADU(r.unit, ReqPDU(r))

MaxADU(framing) == IF framing = "tcp" THEN MaxTCPADU ELSE MaxRTUADU

----------------------------------------------------------------------------
(* Decoding request frames.  `p' is the PDU (starts at the function code). *)
BadReq == [ok |-> FALSE]

DecodeReqPDU(unit, p) ==
    LET n == Len(p) IN
    IF n = 0 THEN BadReq ELSE
    LET fc == p[1] IN
    CASE fc \in {1, 2, 3, 4, 5} /\ n = 5 ->
            [ok |-> TRUE, r |-> Req(fc, unit, W(p, 2), W(p, 4), <<>>, 0, 0)]
      [] fc = 6 /\ n = 5 ->
            [ok |-> TRUE, r |-> Req(6, unit, W(p, 2), 0, <<p[4], p[5]>>, 0, 0)]
      [] fc \in {15, 16} /\ n >= 6 /\ n = 6 + p[6] ->
            [ok |-> TRUE, r |-> Req(fc, unit, W(p, 2), W(p, 4), SubSeq(p, 7, n), 0, 0)]
      [] fc = 17 /\ n = 1 ->
            [ok |-> TRUE, r |-> Req(17, unit, 0, 0, <<>>, 0, 0)]
      [] fc = 23 /\ n >= 10 /\ n = 10 + p[10] ->
            [ok |-> TRUE, r |-> Req(23, unit, W(p, 2), W(p, 4), SubSeq(p, 11, n), W(p, 6), W(p, 8))]
      [] OTHER -> BadReq

\* MBAP header of a frame of at least 7 bytes
MBAPTid(f)   == W(f, 1)
MBAPProto(f) == W(f, 3)
MBAPLen(f)   == W(f, 5)
MBAPUnit(f)  == f[7]

\* a TCP frame whose header is consistent with its own length
TCPFramed(f) == Len(f) >= 8 /\ MBAPProto(f) = 0 /\ MBAPLen(f) = Len(f) - 6

DecodeTCPReq(f) ==
    IF ~TCPFramed(f) THEN BadReq
    ELSE LET d == DecodeReqPDU(MBAPUnit(f), SubSeq(f, 8, Len(f)))
         IN IF d.ok THEN [ok |-> TRUE, r |-> d.r, tid |-> MBAPTid(f)] ELSE BadReq

\* RTU request frame including its CRC trailer
DecodeRTUReq(f) ==
    IF Len(f) < 4 \/ ~CRCConsistent(f) THEN BadReq
    ELSE DecodeReqPDU(f[1], SubSeq(f, 2, Len(f) - 2))

\* structurally a request of a supported function, but with an out-of-limit
\* quantity / count / value (what C09 and C16 call "illegal")
OutOfLimitReq(r) ==
    CASE r.fc \in {1, 2} -> r.qty \notin 1..MaxReadCoils
      [] r.fc \in {3, 4} -> r.qty \notin 1..MaxReadRegisters
      [] r.fc = 5        -> r.qty \notin {CoilOn, CoilOff}
      [] r.fc = 15       -> r.qty \notin 1..MaxWriteCoils
      [] r.fc = 16       -> r.qty \notin 1..MaxWriteRegisters
      [] r.fc = 23       -> r.qty \notin 1..MaxRWRead \/ r.wqty \notin 1..MaxRWWrite
      [] OTHER           -> FALSE

----------------------------------------------------------------------------
(* Responses.  One record shape:                                           *)
(*   fc, unit, addr, qty, data, id, status, extra                          *)
(*   FC1-4, 23 : data (byte count = Len(data))                             *)
(*   FC5       : addr, qty = raw value      FC6 : addr, data (2 bytes)     *)
(*   FC15, 16  : addr, qty                                                 *)
(*   FC17      : id (server id), status (run indicator), extra            *)
Resp(fc, unit, addr, qty, data, id, status, extra) ==
    [fc |-> fc, unit |-> unit, addr |-> addr, qty |-> qty, data |-> data,
     id |-> id, status |-> status, extra |-> extra]

RespPDU(r) ==
    CASE r.fc \in {1, 2, 3, 4, 23} -> <<r.fc, Len(r.data)>> \o r.data
      [] r.fc \in {5, 15, 16}      -> <<r.fc>> \o U16(r.addr) \o U16(r.qty)
      [] r.fc = 6                  -> <<6>> \o U16(r.addr) \o r.data
      [] r.fc = 17                 -> <<17, Len(r.id)>> \o r.id \o <<r.status>> \o r.extra

ExcPDU(fc, code) == <<fc + 128, code>>

RespADU(framing, tid, r) ==
    IF framing = "tcp" THEN TCPADU(tid, r.unit, RespPDU(r)) ELSE RTUADU(r.unit, RespPDU(r))

ExcADU(framing, tid, unit, fc, code) ==
    IF framing = "tcp" THEN TCPADU(tid, unit, ExcPDU(fc, code)) ELSE RTUADU(unit, ExcPDU(fc, code))

BadResp == [ok |-> FALSE]

\* well-formed normal response PDU of a supported function
DecodeRespPDU(unit, p) ==
    LET n == Len(p) IN
    IF n = 0 THEN BadResp ELSE
    LET fc == p[1] IN
    CASE fc \in {1, 2} /\ n >= 3 /\ p[2] = n - 2 ->
            [ok |-> TRUE, r |-> Resp(fc, unit, 0, 0, SubSeq(p, 3, n), <<>>, 0, <<>>)]
      [] fc \in {3, 4, 23} /\ n >= 4 /\ p[2] = n - 2 /\ p[2] % 2 = 0 ->
            [ok |-> TRUE, r |-> Resp(fc, unit, 0, 0, SubSeq(p, 3, n), <<>>, 0, <<>>)]
      [] fc = 5 /\ n = 5 /\ W(p, 4) \in {CoilOn, CoilOff} ->
            [ok |-> TRUE, r |-> Resp(5, unit, W(p, 2), W(p, 4), <<>>, <<>>, 0, <<>>)]
      [] fc = 6 /\ n = 5 ->
            [ok |-> TRUE, r |-> Resp(6, unit, W(p, 2), 0, <<p[4], p[5]>>, <<>>, 0, <<>>)]
      [] fc = 15 /\ n = 5 /\ W(p, 4) \in 1..MaxWriteCoils ->
            [ok |-> TRUE, r |-> Resp(15, unit, W(p, 2), W(p, 4), <<>>, <<>>, 0, <<>>)]
      [] fc = 16 /\ n = 5 /\ W(p, 4) \in 1..MaxWriteRegisters ->
            [ok |-> TRUE, r |-> Resp(16, unit, W(p, 2), W(p, 4), <<>>, <<>>, 0, <<>>)]
      [] fc = 17 /\ n >= 4 /\ p[2] >= 1 /\ n >= p[2] + 3 ->
            [ok |-> TRUE, r |-> Resp(17, unit, 0, 0, <<>>, SubSeq(p, 3, 2 + p[2]), p[3 + p[2]],
                                      SubSeq(p, 4 + p[2], n))]
      [] OTHER -> BadResp

\* exception PDU: function code with the high bit set, one exception code
IsExcPDU(p) == Len(p) = 2 /\ p[1] >= 128

\* has its own byte-count field, and that field disagrees with the actual payload length
ByteCountMismatchPDU(p) ==
    /\ Len(p) >= 1
    /\ \/ p[1] \in {1, 2, 3, 4, 23} /\ (Len(p) < 2 \/ p[2] # Len(p) - 2)
       \/ p[1] = 17 /\ (Len(p) < 2 \/ p[2] + 3 > Len(p))   \* id length runs past the frame

\* Classification of a response frame as received (framing "tcp" / "rtu")
\*   kind "normal"    : well-formed normal response, r = its content
\*   kind "exception" : well-formed exception response
\*   kind "mismatch"  : framed correctly but the byte count field disagrees with the length
\*   kind "other"     : anything else (no demand beyond totality)
RespUnit(framing, f) == IF framing = "tcp" THEN f[7] ELSE f[1]
RespPDUOf(framing, f) == IF framing = "tcp" THEN SubSeq(f, 8, Len(f)) ELSE SubSeq(f, 2, Len(f) - 2)
RespFramed(framing, f) ==
    IF framing = "tcp" THEN TCPFramed(f) /\ Len(f) <= MaxTCPADU
    ELSE Len(f) >= 4 /\ Len(f) <= MaxRTUADU /\ CRCConsistent(f)

\* framed correctly except that the ADU is longer than the transport's limit: byte counts 252..255 are
\* representable in the one-byte count field although no legal ADU can carry them
RespFramedAnySize(framing, f) ==
    IF framing = "tcp" THEN TCPFramed(f) ELSE Len(f) >= 4 /\ CRCConsistent(f)

\* a well-formed TCP response with a byte-count field, followed by bytes that belong to nothing: the frame is longer
\* than its own header and byte count say
TrailingBytesTCP(f) ==
    /\ Len(f) >= 10 /\ 6 + MBAPLen(f) < Len(f) /\ 6 + MBAPLen(f) >= 9
    /\ LET g == SubSeq(f, 1, 6 + MBAPLen(f)) IN
          TCPFramed(g) /\ \/ g[8] \in {1, 2, 3, 4, 23} /\ DecodeRespPDU(g[7], SubSeq(g, 8, Len(g))).ok
                          \/ Len(g) = 9 /\ g[8] >= 128          \* an exception frame followed by stray bytes

ClassifyResp(framing, f) ==
    IF framing = "tcp" /\ TrailingBytesTCP(f) THEN [kind |-> "mismatch"]
    ELSE IF ~RespFramed(framing, f) THEN
        (IF RespFramedAnySize(framing, f) /\ DecodeRespPDU(RespUnit(framing, f), RespPDUOf(framing, f)).ok
         THEN [kind |-> "oversize", r |-> DecodeRespPDU(RespUnit(framing, f), RespPDUOf(framing, f)).r]
         \* (longer than an ADU AND the byte count disagrees with the length: the disagreement is what the statement names)
         ELSE IF RespFramedAnySize(framing, f) /\ ByteCountMismatchPDU(RespPDUOf(framing, f)) THEN [kind |-> "mismatch"]
         ELSE [kind |-> "other"])
    ELSE LET p == RespPDUOf(framing, f)
             u == RespUnit(framing, f)
             d == DecodeRespPDU(u, p)
         IN IF IsExcPDU(p) THEN [kind |-> "exception", unit |-> u, fc |-> p[1] - 128, code |-> p[2]]
            ELSE IF d.ok THEN [kind |-> "normal", r |-> d.r]
            ELSE IF ByteCountMismatchPDU(p) THEN [kind |-> "mismatch"]
            ELSE [kind |-> "other"]

----------------------------------------------------------------------------
(* Length of the normal response a conforming device sends to request r.   *)
RespPDULenFor(r) ==
    CASE r.fc \in {1, 2}         -> 2 + CeilDiv8(r.qty)
      [] r.fc \in {3, 4, 23}     -> 2 + 2 * r.qty
      [] r.fc \in {5, 6, 15, 16} -> 5
\* FC17: variable, not determined by the request

RespLenFor(framing, r) == IF framing = "tcp" THEN 7 + RespPDULenFor(r) ELSE 3 + RespPDULenFor(r)

----------------------------------------------------------------------------
(* A conforming device over a deterministic memory.  Mem(kind, unit, a)   *)
(* is supplied by the instantiating module:                                *)
(*   register memory: value 0..65535, coil memory: 0/1.                    *)
DeviceRegBytes(RegAt(_), addr, qty) ==
    [i \in 1..(2 * qty) |-> IF i % 2 = 1 THEN Hi(RegAt(addr + (i - 1) \div 2))
                                          ELSE Lo(RegAt(addr + (i - 1) \div 2))]

DeviceCoilBytes(CoilAtAddr(_), addr, qty) ==
    PackCoils([i \in 1..qty |-> CoilAtAddr(addr + i - 1)])

----------------------------------------------------------------------------
(* The TCP stream classifier's contract (C18).                             *)
(*  - fewer than 8 bytes: cannot tell yet ("short")                        *)
(*  - protocol id # 0, function code 0, or a length field too small to     *)
(*    hold unit id + function code: not Modbus ("not")                     *)
(*  - otherwise the frame is 6 + length field bytes long; a function code  *)
(*    outside the supported set is reported with exception 01 addressed to *)
(*    the request ("unsupported").                                         *)
Classify(f) ==
    IF Len(f) < 8 THEN [kind |-> "short"]
    ELSE IF MBAPProto(f) # 0 \/ MBAPLen(f) < 2 \/ f[8] = 0 THEN [kind |-> "not"]
    ELSE IF f[8] \in SupportedFC THEN [kind |-> "ok", n |-> 6 + MBAPLen(f)]
    ELSE [kind |-> "unsupported", n |-> 6 + MBAPLen(f),
          exc |-> TCPADU(MBAPTid(f), MBAPUnit(f), ExcPDU(f[8] % 128, 1))]
=============================================================================
