--------------------------- MODULE Trace_ClientLife ---------------------------
(***************************************************************************)
(* Trace validation for ClientLifecycle: every logged call of the real     *)
(* client (Connect with a succeeding / failing dial function, Close, Do    *)
(* with a request / with nil) must have the result class and touch exactly *)
(* the connections (write / read / close, by dial number) that             *)
(* ClientLifecycle!Step prescribes in the state reached by the calls       *)
(* before it.  `reset' starts a new client.                                *)
(***************************************************************************)
EXTENDS ClientLifecycle, IOUtils

Trace == ndJsonDeserialize(IOEnv.TRACE_FILE)
VARIABLES l
tvars == <<l, cur, closed, ndial, lastIO, lastRes, hist>>

IOOf(e) == [i \in DOMAIN e.io |-> IO(e.io[i].a, e.io[i].k)]

Judge(e) ==
    IF e.ev = "reset" THEN "ok"
    ELSE IF e.ev # "call" THEN "unknown-event"
    ELSE IF e.op \notin Ops THEN "unknown-operation"
    ELSE LET r == Step(e.op, State) IN
         IF e.res = "panic" THEN "panic"
         ELSE IF e.res # r.res THEN "extra:client-call-result-differs-from-the-lifecycle-model"
         ELSE IF IOOf(e) # r.io THEN "extra:client-call-touches-other-connections-than-the-lifecycle-model"
         ELSE IF e.op = "do" /\ r.res = "ok" /\ ~e.replyOk THEN "extra:response-is-not-the-current-connection's-reply"
         ELSE "ok"

TInit == l = 1 /\ Init
TNext ==
    /\ l <= Len(Trace)
    /\ LET e == Trace[l] v == Judge(e) IN
       /\ IF v = "ok" THEN TRUE ELSE PrintT(<<"VERDICT", l, v>>)
       /\ IF e.ev = "reset" \/ e.ev # "call" \/ e.op \notin Ops
          THEN cur' = 0 /\ closed' = {} /\ ndial' = 0 /\ lastIO' = <<>> /\ lastRes' = "none" /\ hist' = <<>>
          ELSE LET r == Step(e.op, State) IN
               cur' = r.cur /\ closed' = r.closed /\ ndial' = r.ndial /\ lastIO' = r.io /\ lastRes' = r.res /\ hist' = <<>>
    /\ l' = l + 1
TSpec == TInit /\ [][TNext]_tvars
AllConsumed == TLCGet("stats").diameter - 1 = Len(Trace)
=============================================================================
