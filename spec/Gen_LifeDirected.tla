--------------------------- MODULE Gen_LifeDirected ---------------------------
(***************************************************************************)
(* Directed schedules for the gated replay of C17: ALL interleavings       *)
(* (merges) of the step sequences of two processes around the critical     *)
(* sections the model checker singles out in the as-implemented variants   *)
(* of ServerLifecycle:                                                     *)
(*   A  Shutdown  vs  a connection that is handling a request              *)
(*      (MC_Life_Claim: isBeingHandled tested, request starts, socket      *)
(*       closed, Shutdown returns nil)                                     *)
(*   B  Shutdown  vs  the accept loop taking a new connection              *)
(*      (MC_Life_Straggler)                                                *)
(*   C  context cancellation  vs  the accept loop  (MC_Life_Cancel)        *)
(*   D  as A with a second, idle connection                                *)
(*   E  Shutdown  vs  the start of the serve call  (MC_Life_Startup)       *)
(* A step "acc"/"conn c"/"sd" lets that process pass its next hook gate.   *)
(***************************************************************************)
EXTENDS Integers, Sequences, TLC, Json
VARIABLE c

St(a, p) == [a |-> a, p |-> p]
Rep(x, n) == [i \in 1..n |-> x]

RECURSIVE Merges(_, _)
Merges(s, t) ==
    IF s = <<>> THEN {t} ELSE IF t = <<>> THEN {s}
    ELSE {<<Head(s)>> \o m : m \in Merges(Tail(s), t)} \cup {<<Head(t)>> \o m : m \in Merges(s, Tail(t))}

SD == <<St("shutdown", 0)>> \o Rep(St("sd", 0), 5)
CONN(k) == Rep(St("conn", k), 5)
ACC(k) == <<St("dial", k)>> \o Rep(St("acc", 0), 3)
Accepted(k) == ACC(k)

Case(cfg, steps, tag) == [op |-> "life", k |-> 2, onAccept |-> cfg[1], onClose |-> cfg[2], rejects |-> <<>>, steps |-> steps, tag |-> tag]
Cfgs == {<<FALSE, FALSE>>, <<TRUE, FALSE>>, <<FALSE, TRUE>>, <<TRUE, TRUE>>}

\* every schedule begins with the serve call installing its listener (one "acc" step) - except family E, where
\* Shutdown races with exactly that step (MC_Life_Startup)
S0 == <<St("acc", 0)>>
A == {Case(cfg, S0 \o Accepted(1) \o <<St("send", 1)>> \o m \o Rep(St("conn", 1), 4), "A") : cfg \in Cfgs, m \in Merges(SD, CONN(1))}
B == {Case(cfg, S0 \o m \o Rep(St("conn", 1), 4), "B") : cfg \in {<<FALSE, FALSE>>, <<TRUE, TRUE>>}, m \in Merges(SD, ACC(1))}
CC == {Case(cfg, S0 \o m \o ACC(2) \o Rep(St("conn", 1), 4), "C") : cfg \in Cfgs, m \in Merges(<<St("cancel", 0)>>, ACC(1))}
D == {Case(<<TRUE, TRUE>>, S0 \o Accepted(1) \o Accepted(2) \o <<St("send", 1)>> \o m \o Rep(St("conn", 1), 4) \o Rep(St("conn", 2), 4), "D") :
         m \in Merges(SD, CONN(1))}

E == {Case(cfg, m \o <<St("dial", 1)>> \o Rep(St("acc", 0), 3), "E") : cfg \in Cfgs, m \in Merges(SD, S0)}

\* F (beyond the listed properties, E05): the listener fails while a request is being handled (MC_Life_ListenerFail);
\* the serve call returns the listener's error, the request is answered, a later Shutdown closes the idle connection
LF == <<St("lfail", 0), St("acc", 0)>>
F == {Case(cfg, S0 \o Accepted(1) \o <<St("send", 1)>> \o m \o Rep(St("conn", 1), 4) \o tail, "F") :
         cfg \in Cfgs, m \in Merges(LF, CONN(1)), tail \in {<<>>, SD \o Rep(St("conn", 1), 4)}}
     \cup {Case(cfg, S0 \o LF \o <<St("dial", 1)>> \o tail, "F") : cfg \in Cfgs, tail \in {<<>>, SD}}
CONSTANT Families
Init == c \in (IF "C17" \in Families THEN A \cup B \cup CC \cup D \cup E ELSE {}) \cup (IF "F" \in Families THEN F ELSE {})
Next == UNCHANGED c
Emit == PrintT(<<"CASE", ToJson(c)>>)
=============================================================================
