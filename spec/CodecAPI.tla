------------------------------ MODULE CodecAPI ------------------------------
(***************************************************************************)
(* Names of the library's parsing entry points (the Go harness resolves    *)
(* them by name) and the projection of constructor arguments onto the      *)
(* specification's request record.  No behaviour is described here.        *)
(***************************************************************************)
EXTENDS ModbusPDU

FcName(fc) ==
    CASE fc = 1 -> "ReadCoils" [] fc = 2 -> "ReadDiscreteInputs" [] fc = 3 -> "ReadHoldingRegisters"
      [] fc = 4 -> "ReadInputRegisters" [] fc = 5 -> "WriteSingleCoil" [] fc = 6 -> "WriteSingleRegister"
      [] fc = 15 -> "WriteMultipleCoils" [] fc = 16 -> "WriteMultipleRegisters"
      [] fc = 17 -> "ReadServerID" [] fc = 23 -> "ReadWriteMultipleRegisters"

RespEntries(fr, fc) ==
    IF fr = "tcp" THEN {"ParseTCPResponse", "Parse" \o FcName(fc) \o "ResponseTCP"}
    ELSE {"ParseRTUResponse", "ParseRTUResponseWithCRC", "Parse" \o FcName(fc) \o "ResponseRTU"}
DispEntries(fr) == IF fr = "tcp" THEN {"ParseTCPResponse"} ELSE {"ParseRTUResponse", "ParseRTUResponseWithCRC"}

ReqEntries(fr, fc) ==
    IF fr = "tcp" THEN {"ParseTCPRequest", "Parse" \o FcName(fc) \o "RequestTCP"}
    ELSE {"ParseRTURequest", "ParseRTURequestWithCRC", "Parse" \o FcName(fc) \o "RequestRTU"}

AllReqEntries(fr) == UNION {ReqEntries(fr, fc) : fc \in SupportedFC}
AllRespEntries(fr) == UNION {RespEntries(fr, fc) : fc \in SupportedFC}
TCPEntries == AllReqEntries("tcp") \cup AllRespEntries("tcp") \cup
              {"ParseMBAPHeader", "LooksLikeModbusTCP", "LooksLikeModbusTCPAllow", "AsTCPErrorPacket", "AssemblerReceiveRead"}
RTUEntries == AllReqEntries("rtu") \cup AllRespEntries("rtu") \cup {"AsRTUErrorPacket"}

\* constructor arguments (as the harness passes them) -> request record
\*   FC5: qty 0/1 = coil state; FC15: coils = sequence of 0/1; FC16/23: data = register bytes
ReqOfArgs(k) ==
    CASE k.fc = 5  -> Req(5, k.unit, k.addr, IF k.qty = 0 THEN CoilOff ELSE CoilOn, <<>>, 0, 0)
      [] k.fc = 6  -> Req(6, k.unit, k.addr, 0, k.data, 0, 0)
      [] k.fc = 15 -> Req(15, k.unit, k.addr, Len(k.coils), PackCoils(k.coils), 0, 0)
      [] k.fc = 16 -> Req(16, k.unit, k.addr, Len(k.data) \div 2, k.data, 0, 0)
      [] k.fc = 17 -> Req(17, k.unit, 0, 0, <<>>, 0, 0)
      [] k.fc = 23 -> Req(23, k.unit, k.addr, k.qty, k.data, k.waddr, Len(k.data) \div 2)
      [] OTHER     -> Req(k.fc, k.unit, k.addr, k.qty, <<>>, 0, 0)
=============================================================================
