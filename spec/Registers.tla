------------------------------ MODULE Registers ------------------------------
(***************************************************************************)
(* Typed access to the payload of a register response (C04, C13, C05).     *)
(*                                                                         *)
(* A window is the payload of `count' registers (2 bytes each, as on the   *)
(* wire) together with the request's start address.  An accessor reads     *)
(* `n' consecutive registers starting at `addr'; it is defined iff all of  *)
(* them lie in [start, start+count), computed in the naturals.             *)
(*                                                                         *)
(* Byte/word order conventions are the library's documented ones           *)
(* (registers.go header comment, "Name" column of its table), for the      *)
(* documented example value 0xAE415652:                                    *)
(*    wire AE41 5652  big endian, high word first     (order 9)            *)
(*    wire 5652 AE41  big endian, low word first      (order 5)            *)
(*    wire 41AE 5256  little endian, low word first   (order 6)            *)
(*    wire 5256 41AE  little endian, high word first  (order 10)           *)
(* i.e. "low word first" reverses the order of the 16-bit words and        *)
(* "little endian" then reads the resulting byte string least significant  *)
(* byte first.  Order 0 means "the window's default order".                *)
(* Values are represented most-significant-byte first.                     *)
(***************************************************************************)
EXTENDS Integers, Sequences

BE_LOW  == 5     \* BigEndian | LowWordFirst
BE_HIGH == 9     \* BigEndian | HighWordFirst
LE_LOW  == 6     \* LittleEndian | LowWordFirst
LE_HIGH == 10    \* LittleEndian | HighWordFirst
NamedOrders == {BE_LOW, BE_HIGH, LE_LOW, LE_HIGH}

\* an order is a set of flags (BigEndian = 1, LittleEndian = 2, LowWordFirst = 4, HighWordFirst = 8); the four named
\* orders combine one endianness with one word order, a bare flag leaves the other choice at "big endian" / "high word first"
FlagSet(o, f) == (o \div f) % 2 = 1
IsLE(o)  == FlagSet(o, 2)
IsLow(o) == FlagSet(o, 4)
\* strings: the two characters of a register are swapped exactly when the BigEndian flag is given
StrSwapped(o) == FlagSet(o, 1)

Reverse(s) == [i \in 1..Len(s) |-> s[Len(s) + 1 - i]]
\* reverse the order of the 2-byte words of an even-length byte string
ReverseWords(s) ==
    LET n == Len(s) IN
    [i \in 1..n |-> LET w == (i - 1) \div 2   \* 0-based word index
                        k == (i - 1) % 2
                    IN s[2 * ((n \div 2) - 1 - w) + k + 1]]

\* integer value (MSB first) of the wire bytes of 1, 2 or 4 registers under order o
IntValue(wire, o) ==
    LET ws == IF IsLow(o) THEN ReverseWords(wire) ELSE wire
    IN IF IsLE(o) THEN Reverse(ws) ELSE ws

\* raw register groups: only the word order applies
RawValue(wire, o) == IF IsLow(o) THEN ReverseWords(wire) ELSE wire

----------------------------------------------------------------------------
(* Window *)
Count(payload) == Len(payload) \div 2
InWindow(start, payload, addr, n) == addr >= start /\ addr + n <= start + Count(payload)
Wire(start, payload, addr, n) == SubSeq(payload, 2 * (addr - start) + 1, 2 * (addr - start) + 2 * n)

RECURSIVE Pow2r(_)
Pow2r(n) == IF n = 0 THEN 1 ELSE 2 * Pow2r(n - 1)

\* string of `length' bytes: big endian orders store the two characters of a register swapped
\* (library convention), the string ends at the first NUL
StrChars(wire, length, o) ==
    [j \in 1..length |-> IF ~StrSwapped(o) THEN wire[j]
                         ELSE IF j % 2 = 1 THEN wire[j + 1] ELSE wire[j - 1]]
RECURSIVE UntilNul(_, _)
UntilNul(s, i) == IF i > Len(s) \/ s[i] = 0 THEN <<>> ELSE <<s[i]>> \o UntilNul(s, i + 1)

RegsOfString(length) == (length + 1) \div 2

\* number of registers an accessor touches
SizeOf(acc, length) ==
    CASE acc \in {"Bit", "Byte", "Uint8", "Int8", "Uint16", "Int16", "Register"} -> 1
      [] acc \in {"Uint32", "Uint32WithByteOrder", "Int32", "Int32WithByteOrder", "Float32",
                  "Float32WithByteOrder", "DoubleRegister"} -> 2
      [] acc \in {"Uint64", "Uint64WithByteOrder", "Int64", "Int64WithByteOrder", "Float64",
                  "Float64WithByteOrder", "QuadRegister"} -> 4
      [] acc \in {"String", "StringWithByteOrder"} -> RegsOfString(length)

Accessors == {"Bit", "Byte", "Uint8", "Int8", "Uint16", "Int16", "Register",
              "Uint32", "Uint32WithByteOrder", "Int32", "Int32WithByteOrder", "Float32", "Float32WithByteOrder",
              "DoubleRegister", "Uint64", "Uint64WithByteOrder", "Int64", "Int64WithByteOrder", "Float64",
              "Float64WithByteOrder", "QuadRegister", "String", "StringWithByteOrder"}
TakesOrder(acc) == acc \in {"Uint32WithByteOrder", "Int32WithByteOrder", "Float32WithByteOrder", "Uint64WithByteOrder",
                            "Int64WithByteOrder", "Float64WithByteOrder", "StringWithByteOrder", "DoubleRegister", "QuadRegister"}

\* call record: acc, addr, order (0 = default), len (strings), bit, high (0/1)
Defined(start, payload, c) ==
    /\ InWindow(start, payload, c.addr, SizeOf(c.acc, c.len))
    /\ (c.acc = "Bit" => c.bit \in 0..15)

EffOrder(def, c) == IF TakesOrder(c.acc) /\ c.order # 0 THEN c.order ELSE def

W16(w) == w[1] * 256 + w[2]

\* the value (sequence of bytes, MSB first; Bit: <<0/1>>; String: characters)
ValueOf(start, payload, def, c) ==
    LET w == Wire(start, payload, c.addr, SizeOf(c.acc, c.len))
        o == EffOrder(def, c)
    IN CASE c.acc = "Bit" -> <<(W16(w) \div Pow2r(c.bit)) % 2>>
         [] c.acc \in {"Byte", "Uint8", "Int8"} -> IF c.high = 1 THEN <<w[1]>> ELSE <<w[2]>>
         [] c.acc \in {"Uint16", "Int16"} -> IF IsLE(def) THEN <<w[2], w[1]>> ELSE w
         [] c.acc = "Register" -> w
         [] c.acc \in {"DoubleRegister", "QuadRegister"} -> RawValue(w, c.order)
         [] c.acc \in {"String", "StringWithByteOrder"} -> UntilNul(StrChars(w, c.len, o), 1)
         [] OTHER -> IntValue(w, o)

\* the documented example, as a sanity property of this module (checked by MC_Registers)
DocExample ==
    /\ IntValue(<<174, 65, 86, 82>>, BE_HIGH) = <<174, 65, 86, 82>>
    /\ IntValue(<<86, 82, 174, 65>>, BE_LOW)  = <<174, 65, 86, 82>>
    /\ IntValue(<<65, 174, 82, 86>>, LE_LOW)  = <<174, 65, 86, 82>>
    /\ IntValue(<<82, 86, 65, 174>>, LE_HIGH) = <<174, 65, 86, 82>>
=============================================================================
