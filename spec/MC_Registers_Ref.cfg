INIT Init
NEXT Next
CONSTANT InPlaceSwap = FALSE
INVARIANT Repeatable
INVARIANT Sane
PROPERTY PayloadUnchanged
CHECK_DEADLOCK FALSE
