----------------------------- MODULE Trace_Stream -----------------------------
(***************************************************************************)
(* Trace validation for the server's per-connection behaviour (C15, C16).  *)
(* reset installs the frames of the stream and the handler behaviour; each *)
(* segment event carries the bytes of one read and the bytes the server    *)
(* sent in response to it (direct ReceiveRead result, or what a client of  *)
(* server.Server received over the in-memory listener).                    *)
(***************************************************************************)
EXTENDS ServerStream, KnownFindingsServer, TLC, Json, IOUtils

Trace == ndJsonDeserialize(IOEnv.TRACE_FILE)
\* streams[c]: the request frames of connection c; delivered/outAll/dead are per connection.  Single-connection
\* traces (direct ReceiveRead, one client of server.Server) are the case of one stream.
VARIABLES l, streams, handler, delivered, outAll, dead
vars == <<l, streams, handler, delivered, outAll, dead>>

\* every frame of the stream has a reply the statements determine (legal, unsupported function, out of range)
AllLegal(frames) == \A i \in DOMAIN frames : Answerable(frames[i])

RECURSIVE TotalBytes(_)
TotalBytes(frames) == IF frames = <<>> THEN 0 ELSE Len(Head(frames)) + TotalBytes(Tail(frames))
\* C15 for streams of legal frames answered by the device
J_seq(frames, e, d1, o1, d2, o2) ==
    LET k == Completed(frames, d2)
        want == Replies(frames, k)
    IN IF o2 = want THEN (IF e.close /\ d2 < TotalBytes(frames) THEN "connection-closed-by-the-server-in-the-middle-of-a-legal-stream" ELSE "ok")
       ELSE IF Len(o2) > Len(want) \/ o2 # SubSeq(want, 1, Len(o2)) THEN
            (IF Len(e.out) > 0 /\ Len(o1) = Len(Replies(frames, Completed(frames, d1))) /\ k = Completed(frames, d1)
             THEN (IF Len(streams) > 1 /\ Len(e.bytes) = 0 THEN "bytes-sent-to-a-connection-that-asked-nothing"
                   ELSE "reply-sent-before-the-request-is-complete")
             ELSE "reply-stream-differs-from-in-order-replies")
       ELSE "complete-request-not-answered"

\* C16 for a single complete frame
J_one(f, e, d2) ==
    IF d2 < Len(f) THEN (IF Len(e.out) > 0 THEN "reply-sent-before-the-request-is-complete" ELSE "ok")
    ELSE ReplyVerdict(f, IF handler = "errShared" THEN "errTyped" ELSE IF handler = "errRelayed" THEN "errGeneric" ELSE handler, e.out)

J_segment(e) ==
    LET c == e.conn
        frames == streams[c]
        d2 == delivered[c] + Len(e.bytes)
        o2 == outAll[c] \o e.out
    IN IF e.panic /\ handler \notin {"panic", "nil"} THEN "panic"
       ELSE IF e.panic THEN "ok"                      \* a panicking handler: recorded, the connection is dropped
       ELSE IF handler = "device" /\ AllLegal(frames) THEN J_seq(frames, e, delivered[c], outAll[c], d2, o2)
       ELSE IF Len(frames) = 1 THEN J_one(frames[1], e, d2)
       ELSE "ok"

\* Beyond the listed properties (check E04, VERIF_EXTRA=1): an assembler that implements RawReadTracer is told every
\* non-empty read with exactly the bytes read, before those bytes are handed to ReceiveRead
Extra == IOEnv.VERIF_EXTRA = "1"
J_traced(e) ==
    IF e.tap /\ ~e.panic /\ e.traced # e.bytes THEN "extra:raw-read-tracer-not-told-exactly-the-bytes-of-the-read" ELSE "ok"

Known(v, e) ==
    IF v # "ok" /\ Dev_Len2_NotModbus(streams[e.conn], delivered[e.conn] + Len(e.bytes), e.out) THEN "known:C15-F1" ELSE v

Judge(e) ==
    CASE e.ev = "reset" -> "ok"
      [] e.ev = "segment" -> IF e.conn \notin DOMAIN streams THEN "unknown-connection" ELSE IF dead[e.conn] THEN "ok"
                             ELSE LET v == Known(J_segment(e), e) IN IF v = "ok" /\ Extra THEN J_traced(e) ELSE v
      [] e.ev = "leave" -> "ok"
      [] e.ev = "other" -> IF e.ok THEN "ok" ELSE "other-connection-disturbed"
      [] e.ev = "race" -> "data-race-in-library-code-between-connections"
      [] e.ev = "harness" -> "harness-" \o e.what
      \* the driver's watchdog: the case was still running (no event for a minute, or the heap beyond 6 GiB)
      [] e.ev = "runaway" -> "library-call-does-not-return"
      [] OTHER -> "unknown-event"

Init == l = 1 /\ streams = <<>> /\ handler = "device" /\ delivered = <<>> /\ outAll = <<>> /\ dead = <<>>
Next ==
    /\ l <= Len(Trace)
    /\ LET e == Trace[l] v == Judge(e) IN
       /\ IF v = "ok" THEN TRUE ELSE PrintT(<<"VERDICT", l, v>>)
       /\ CASE e.ev = "reset" -> /\ streams' = e.streams /\ handler' = e.handler
                                 /\ delivered' = [c \in DOMAIN e.streams |-> 0] /\ outAll' = [c \in DOMAIN e.streams |-> <<>>]
                                 /\ dead' = [c \in DOMAIN e.streams |-> FALSE]
            [] e.ev = "segment" /\ e.conn \in DOMAIN streams ->
                                   /\ delivered' = [delivered EXCEPT ![e.conn] = @ + Len(e.bytes)]
                                   /\ outAll' = [outAll EXCEPT ![e.conn] = @ \o e.out]
                                   \* after the first rejection of a stream the rest of it is not judged again
                                   /\ dead' = [dead EXCEPT ![e.conn] = (@ \/ v # "ok")] /\ UNCHANGED <<streams, handler>>
            [] OTHER -> UNCHANGED <<streams, handler, delivered, outAll, dead>>
    /\ l' = l + 1
Spec == Init /\ [][Next]_vars
AllConsumed == TLCGet("stats").diameter - 1 = Len(Trace)
=============================================================================
