----------------------------- MODULE Trace_Stream -----------------------------
(***************************************************************************)
(* Trace validation for the server's per-connection behaviour (C15, C16).  *)
(* reset installs the frames of the stream and the handler behaviour; each *)
(* segment event carries the bytes of one read and the bytes the server    *)
(* sent in response to it (direct ReceiveRead result, or what a client of  *)
(* server.Server received over the in-memory listener).                    *)
(***************************************************************************)
EXTENDS ServerStream, KnownFindingsServer, TLC, Json, IOUtils

Trace == ndJsonDeserialize(IOEnv.TRACE_FILE)
VARIABLES l, frames, handler, delivered, outAll, dead
vars == <<l, frames, handler, delivered, outAll, dead>>

AllLegal == \A i \in DOMAIN frames : FrameClass(frames[i]) = "legal"

\* C15 for streams of legal frames answered by the device
J_seq(e, d2, o2) ==
    LET k == Completed(frames, d2)
        want == Replies(frames, k)
    IN IF o2 = want THEN "ok"
       ELSE IF Len(o2) > Len(want) \/ o2 # SubSeq(want, 1, Len(o2)) THEN
            (IF Len(e.out) > 0 /\ Len(outAll) = Len(Replies(frames, Completed(frames, delivered))) /\ k = Completed(frames, delivered)
             THEN "reply-sent-before-the-request-is-complete"
             ELSE "reply-stream-differs-from-in-order-replies")
       ELSE "complete-request-not-answered"

\* C16 for a single complete frame
J_one(e, d2) ==
    IF d2 < Len(frames[1]) THEN (IF Len(e.out) > 0 THEN "reply-sent-before-the-request-is-complete" ELSE "ok")
    ELSE ReplyVerdict(frames[1], handler, e.out)

J_segment(e) ==
    LET d2 == delivered + Len(e.bytes)
        o2 == outAll \o e.out
    IN IF e.panic /\ handler \notin {"panic", "nil"} THEN "panic"
       ELSE IF e.panic THEN "ok"                      \* a panicking handler: recorded, the connection is dropped
       ELSE IF handler = "device" /\ AllLegal THEN J_seq(e, d2, o2)
       ELSE IF Len(frames) = 1 THEN J_one(e, d2)
       ELSE "ok"

Known(v, e) ==
    IF v # "ok" /\ Dev_Len2_NotModbus(frames, delivered + Len(e.bytes), e.out) THEN "known:C15-F1" ELSE v

Judge(e) ==
    CASE e.ev = "reset" -> "ok"
      [] e.ev = "segment" -> IF dead THEN "ok" ELSE Known(J_segment(e), e)
      [] e.ev = "other" -> IF e.ok THEN "ok" ELSE "other-connection-disturbed"
      [] e.ev = "harness" -> "harness-" \o e.what
      [] OTHER -> "unknown-event"

Init == l = 1 /\ frames = <<>> /\ handler = "device" /\ delivered = 0 /\ outAll = <<>> /\ dead = FALSE
Next ==
    /\ l <= Len(Trace)
    /\ LET e == Trace[l] v == Judge(e) IN
       /\ IF v = "ok" THEN TRUE ELSE PrintT(<<"VERDICT", l, v>>)
       /\ CASE e.ev = "reset" -> frames' = e.frames /\ handler' = e.handler /\ delivered' = 0 /\ outAll' = <<>> /\ dead' = FALSE
            [] e.ev = "segment" -> /\ delivered' = delivered + Len(e.bytes) /\ outAll' = outAll \o e.out
                                   \* after the first rejection of a stream the rest of it is not judged again
                                   /\ dead' = (dead \/ v # "ok") /\ UNCHANGED <<frames, handler>>
            [] OTHER -> UNCHANGED <<frames, handler, delivered, outAll, dead>>
    /\ l' = l + 1
Spec == Init /\ [][Next]_vars
AllConsumed == TLCGet("stats").diameter - 1 = Len(Trace)
=============================================================================
