SPECIFICATION TSpec
CONSTANTS NCalls = 3 MatchReply = FALSE Emit = FALSE
POSTCONDITION AllConsumed
CHECK_DEADLOCK FALSE
