------------------------------- MODULE CRC16 -------------------------------
(***************************************************************************)
(* The Modbus RTU CRC-16 ("MODBUS over Serial Line" V1.02, section 6.2.2). *)
(* Written from the standard's procedure, not from the Go code:            *)
(*   1. load a 16-bit register with 0xFFFF;                                *)
(*   2. xor the message byte into the low half of the register;            *)
(*   3. shift right one bit; if the bit shifted out was 1, xor 0xA001;     *)
(*   4. repeat step 3 until 8 shifts were made;                            *)
(*   5. repeat 2-4 for every message byte; the register is the CRC;        *)
(*   6. the CRC is appended LOW byte first, then HIGH byte.                *)
(* `Step' is that normative definition; `TableStep' is the byte-at-a-time  *)
(* table formulation.  MC_CRC checks Step = TableStep on the whole         *)
(* 2^16 x 2^8 transition space, which (CRC being a fold over a 16-bit      *)
(* state) closes the "for every byte string" quantifier by induction.      *)
(***************************************************************************)
EXTENDS Integers, Sequences, Bitwise

CRCInit == 65535          \* 0xFFFF
CRCPoly == 40961          \* 0xA001, reflected 0x8005

Shift1(c) == IF c % 2 = 1 THEN (c \div 2) ^^ CRCPoly ELSE c \div 2

RECURSIVE ShiftN(_, _)
ShiftN(c, n) == IF n = 0 THEN c ELSE ShiftN(Shift1(c), n - 1)

\* normative: xor byte into low half, 8 conditional shifts
Step(c, b) == ShiftN(c ^^ b, 8)

\* 256-entry table (constant-level, evaluated once by TLC)
CRCTable == [x \in 0..255 |-> ShiftN(x, 8)]

TableStep(c, b) == (c \div 256) ^^ CRCTable[(c ^^ b) % 256]

RECURSIVE CRCFrom(_, _, _)
CRCFrom(bs, i, c) == IF i > Len(bs) THEN c ELSE CRCFrom(bs, i + 1, TableStep(c, bs[i]))

\* CRC of a whole byte sequence
CRC(bs) == CRCFrom(bs, 1, CRCInit)

\* same, with the normative bit-serial step (used by MC_CRC to cross-check CRC)
RECURSIVE CRCSlowFrom(_, _, _)
CRCSlowFrom(bs, i, c) == IF i > Len(bs) THEN c ELSE CRCSlowFrom(bs, i + 1, Step(c, bs[i]))
CRCSlow(bs) == CRCSlowFrom(bs, 1, CRCInit)

\* trailer: low byte first
CRCTrailer(bs) == LET c == CRC(bs) IN <<c % 256, c \div 256>>

WithCRC(bs) == bs \o CRCTrailer(bs)

\* a frame (>= 2 bytes... callers check length) whose last two bytes are the CRC of the rest
CRCConsistent(frame) ==
    /\ Len(frame) >= 2
    /\ LET n == Len(frame)
           body == SubSeq(frame, 1, n - 2)
           c == CRC(body)
       IN frame[n - 1] = c % 256 /\ frame[n] = c \div 256
=============================================================================
