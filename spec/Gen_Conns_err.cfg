SPECIFICATION Spec
CONSTANTS SharedBuf = FALSE Emit = TRUE Handler = "errShared"
INVARIANT OwnRepliesOnly EmitDone
CHECK_DEADLOCK FALSE
