-------------------------- MODULE Trace_ClientAddr --------------------------
(* Trace validation for ClientAddress (check E06): one event per Connect + request with the address pieces and what was
   observed: "tcp" / "udp" = the endpoint that received the request bytes, "error" = Connect failed, "none" = Connect
   succeeded but no endpoint of the experiment received the request. *)
EXTENDS ClientAddress, IOUtils
Trace == ndJsonDeserialize(IOEnv.TRACE_FILE)
VARIABLE l
Judge(e) ==
    IF e.ev # "caddr" THEN "unknown-event"
    ELSE IF e.outcome = "panic" THEN "extra:panic"
    ELSE LET want == Outcome(e.pieces) IN
         IF e.outcome = want THEN "ok"
         ELSE IF want = "error" THEN "extra:connect-succeeded-for-an-address-that-names-no-reachable-endpoint-" \o e.outcome
         ELSE IF e.outcome = "error" THEN "extra:connect-failed-for-a-documented-address-form"
         ELSE "extra:request-went-over-the-wrong-network-" \o e.outcome
TInit == l = 1 /\ a = <<>>
TNext ==
    /\ l <= Len(Trace)
    /\ LET v == Judge(Trace[l]) IN IF v = "ok" THEN TRUE ELSE PrintT(<<"VERDICT", l, v>>)
    /\ l' = l + 1 /\ UNCHANGED a
TSpec == TInit /\ [][TNext]_<<l, a>>
AllConsumed == TLCGet("stats").diameter - 1 = Len(Trace)
=============================================================================
