SPECIFICATION Spec
CONSTANTS OnePerRead = FALSE Early = TRUE Hdr = 2
INVARIANT AnswersExactlyCompleted
CHECK_DEADLOCK FALSE
