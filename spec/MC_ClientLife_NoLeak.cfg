SPECIFICATION Spec
CONSTANTS MaxOps = 6 Emit = FALSE
INVARIANT NoLeak
CHECK_DEADLOCK FALSE
