SPECIFICATION Spec
CONSTANTS OnePerRead = FALSE Early = FALSE Hdr = 2
INVARIANT AnswersExactlyCompleted
CHECK_DEADLOCK FALSE
