------------------------ MODULE KnownFindingsServer ------------------------
(***************************************************************************)
(* Deviation operators for the server family (see KnownFindings.tla for    *)
(* the convention).                                                        *)
(***************************************************************************)
EXTENDS ServerStream

\* C15-F1 / C16-F1 (root cause = C18-F1, pinned by TestLooksLikeModbusTCP): a request whose MBAP length
\* field is 2 - the library's own FC17 request - is classified "not Modbus": as soon as its 8 bytes are
\* buffered the server answers 00 00 00 00 00 03 00 80 00 (an exception addressed to nobody) and never
\* consumes the frame.
NotModbusReply == <<0, 0, 0, 0, 0, 3, 0, 128, 0>>
RECURSIVE FirstLen2(_, _, _)
\* offset (bytes before it) of the first frame with length field 2, or -1
FirstLen2(fs, i, acc) ==
    IF i > Len(fs) THEN -1
    ELSE IF Len(fs[i]) = 8 /\ MBAPLen(fs[i]) = 2 THEN acc
    ELSE FirstLen2(fs, i + 1, acc + Len(fs[i]))
Dev_Len2_NotModbus(fs, deliveredNow, out) ==
    LET off == FirstLen2(fs, 1, 0) IN
    /\ off >= 0
    /\ deliveredNow >= off + 8          \* the length-2 frame is completely buffered
    /\ Len(out) >= 9
    /\ SubSeq(out, Len(out) - 8, Len(out)) = NotModbusReply
=============================================================================
