------------------------------ MODULE Splitter ------------------------------
(***************************************************************************)
(* Request batching (C06) and end-to-end extraction (C05).                 *)
(* ValidSplit is the conjunction in C06's statement, written in the        *)
(* naturals (no 16-bit arithmetic).  Order of requests and of fields       *)
(* inside a request is irrelevant (everything is compared as multisets).   *)
(***************************************************************************)
EXTENDS Integers, Sequences, FiniteSets, ModbusPDU, Registers

\* field: [server, unit, addr, type, bit, high, len, order, name]
T_Bit == 1  T_Byte == 2  T_Uint8 == 3  T_Int8 == 4  T_Uint16 == 5  T_Int16 == 6  T_Uint32 == 7  T_Int32 == 8
T_Uint64 == 9  T_Int64 == 10  T_Float32 == 11  T_Float64 == 12  T_String == 13  T_Coil == 14

IsCoil(f) == f.type = T_Coil
FieldSize(f) ==
    CASE f.type \in {T_Uint64, T_Int64, T_Float64} -> 4
      [] f.type \in {T_Uint32, T_Int32, T_Float32} -> 2
      [] f.type = T_String -> (f.len + 1) \div 2
      [] OTHER -> 1
FieldEnd(f) == f.addr + FieldSize(f)

ValidField(f) ==
    /\ f.server # ""
    /\ f.type \in 1..14
    /\ f.bit \in 0..15
    /\ (f.type = T_String => f.len >= 1)

\* target: [fc |-> 1..4, framing |-> "tcp"/"rtu"]
WantsCoils(t) == t.fc \in {1, 2}
Limit(t) == IF WantsCoils(t) THEN MaxReadCoils ELSE MaxReadRegisters
Relevant(fields, t) == SelectSeq(fields, LAMBDA f : IsCoil(f) = WantsCoils(t))

CountIn(s, v) == Cardinality({i \in DOMAIN s : s[i] = v})
RECURSIVE FlattenFrom(_, _)
FlattenFrom(reqs, i) == IF i > Len(reqs) THEN <<>> ELSE reqs[i].fields \o FlattenFrom(reqs, i + 1)
AllOut(reqs) == FlattenFrom(reqs, 1)
Range(s) == {s[i] : i \in DOMAIN s}

MinOf(S) == CHOOSE x \in S : \A y \in S : x <= y
MaxOf(S) == CHOOSE x \in S : \A y \in S : x >= y

\* request descriptor: [server, unit, start, qty, fields (sequence of field records), bytes]
ReqOK(q, t) ==
    /\ Len(q.fields) >= 1                                                       \* no empty request
    /\ \A i \in DOMAIN q.fields :
          LET f == q.fields[i] IN
          /\ f.server = q.server /\ f.unit = q.unit                             \* own server / unit
          /\ q.start <= f.addr /\ FieldEnd(f) <= q.start + q.qty                \* whole span inside the window
    /\ q.start = MinOf({q.fields[i].addr : i \in DOMAIN q.fields})              \* tight at the low end
    /\ q.start + q.qty = MaxOf({FieldEnd(q.fields[i]) : i \in DOMAIN q.fields}) \* tight at the high end
    /\ q.qty \in 1..Limit(t)
    /\ LET d == IF t.framing = "tcp" THEN DecodeTCPReq(q.bytes) ELSE DecodeRTUReq(q.bytes) IN
          d.ok /\ d.r.fc = t.fc /\ d.r.unit = q.unit /\ d.r.addr = q.start /\ d.r.qty = q.qty

Groups(rel) == {<<rel[i].server, rel[i].unit>> : i \in DOMAIN rel}
GroupFits(rel, g, t) ==
    LET fs == {i \in DOMAIN rel : rel[i].server = g[1] /\ rel[i].unit = g[2]} IN
    MaxOf({FieldEnd(rel[i]) : i \in fs}) - MinOf({rel[i].addr : i \in fs}) <= Limit(t)

\* which clause fails first ("ok" if none): used by the monitor to name the rejection
SplitVerdict(fields, t, reqs) ==
    LET rel == Relevant(fields, t)
        out == AllOut(reqs)
    IN IF \E v \in Range(rel) \cup Range(out) : CountIn(rel, v) # CountIn(out, v)
            THEN "field-not-in-exactly-one-request-or-foreign-field-present"
       ELSE IF \E i \in DOMAIN reqs : Len(reqs[i].fields) = 0 THEN "empty-request"
       ELSE IF \E i \in DOMAIN reqs : ~ReqOK(reqs[i], t) THEN "request-window-target-limit-or-packet-wrong"
       ELSE IF \E g \in Groups(rel) : GroupFits(rel, g, t) /\
                    Cardinality({i \in DOMAIN reqs : reqs[i].server = g[1] /\ reqs[i].unit = g[2]}) # 1
            THEN "group-that-fits-the-limit-was-split"
       ELSE "ok"

ValidSplit(fields, t, reqs) == SplitVerdict(fields, t, reqs) = "ok"

----------------------------------------------------------------------------
(* Device memory (C05): deterministic functions of (server, unit, address). *)
SrvIdx(server) == CASE server = "a:1" -> 0 [] server = "b:2" -> 1 [] OTHER -> 2
\* variant 0: all bytes non-zero; variant 1: low byte NUL at every address = 3 mod 5
MemHi(v, s, u, a) == ((a * 7 + 3 + u) % 251) + 1
MemLo(v, s, u, a) == IF v = 1 /\ a % 5 = 3 THEN 0 ELSE ((a * 11 + 5 + SrvIdx(s)) % 241) + 1
MemBytes(v, s, u, addr, n) ==
    [i \in 1..(2 * n) |-> IF i % 2 = 1 THEN MemHi(v, s, u, addr + (i - 1) \div 2) ELSE MemLo(v, s, u, addr + (i - 1) \div 2)]

FieldAcc(f) ==
    CASE f.type = T_Bit -> "Bit" [] f.type = T_Byte -> "Byte" [] f.type = T_Uint8 -> "Uint8" [] f.type = T_Int8 -> "Int8"
      [] f.type = T_Uint16 -> "Uint16" [] f.type = T_Int16 -> "Int16"
      [] f.type = T_Uint32 -> "Uint32WithByteOrder" [] f.type = T_Int32 -> "Int32WithByteOrder"
      [] f.type = T_Uint64 -> "Uint64WithByteOrder" [] f.type = T_Int64 -> "Int64WithByteOrder"
      [] f.type = T_Float32 -> "Float32WithByteOrder" [] f.type = T_Float64 -> "Float64WithByteOrder"
      [] f.type = T_String -> "StringWithByteOrder"
CallOfField(f) == [acc |-> FieldAcc(f), addr |-> f.addr, order |-> f.order, len |-> f.len, bit |-> f.bit, high |-> f.high]

\* the value obtained by decoding the device's memory DIRECTLY at the field's address
ExtractOracle(v, f) ==
    ValueOf(f.addr, MemBytes(v, f.server, f.unit, f.addr, FieldSize(f)), BE_HIGH, CallOfField(f))
=============================================================================
