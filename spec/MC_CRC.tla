------------------------------- MODULE MC_CRC -------------------------------
(***************************************************************************)
(* Design-level check for C03: the table formulation used everywhere else  *)
(* in the specification equals the normative bit-serial definition on the  *)
(* (state, byte) transition space, and appending the CRC low byte first    *)
(* gives residue 0 (the property that makes "last two bytes = CRC of the   *)
(* rest" a consistent frame check).                                        *)
(***************************************************************************)
EXTENDS CRC16, TLC
CONSTANT Tier
VARIABLE s

Bs == IF Tier = "thorough" \/ s < 256 THEN 0..255 ELSE {0, 1, 128, 255}

Init == s \in 0..65535
Next == UNCHANGED s

StepEqualsTableStep == \A b \in Bs : Step(s, b) = TableStep(s, b)

\* message derived from the state value: 0, 1 or 2 bytes
Msg == IF s = 0 THEN <<>> ELSE IF s < 256 THEN <<s>> ELSE <<s % 256, s \div 256>>
ResidueLaw ==
    /\ CRC(WithCRC(Msg)) = 0
    /\ CRCConsistent(WithCRC(Msg))
    /\ CRC(Msg) = CRCSlow(Msg)
    /\ LET t == CRCTrailer(Msg) IN ~CRCConsistent(Msg \o <<(t[1] + 1) % 256, t[2]>>)
=============================================================================
