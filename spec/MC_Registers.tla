---------------------------- MODULE MC_Registers ----------------------------
(***************************************************************************)
(* Design level for C13/C04: the Registers state machine.  The window is   *)
(* state; accessor calls are actions that return a value and leave the     *)
(* payload unchanged.  With InPlaceSwap = TRUE the string read is modelled *)
(* the way an in-place byte swap behaves (the payload keeps the swapped    *)
(* bytes): TLC then finds PayloadUnchanged / Repeatable violated, which    *)
(* shows the properties are not vacuous on this model.                     *)
(***************************************************************************)
EXTENDS Registers, TLC
CONSTANT InPlaceSwap
VARIABLES payload, last, first

Start == 10
P0 == <<65, 66, 67, 0, 69, 70>>
Calls == {[acc |-> "Uint16", addr |-> 10, order |-> 0, len |-> 0, bit |-> 0, high |-> 0],
          [acc |-> "Uint32WithByteOrder", addr |-> 11, order |-> LE_LOW, len |-> 0, bit |-> 0, high |-> 0],
          [acc |-> "String", addr |-> 10, order |-> 0, len |-> 3, bit |-> 0, high |-> 0],
          [acc |-> "StringWithByteOrder", addr |-> 11, order |-> LE_HIGH, len |-> 4, bit |-> 0, high |-> 0],
          [acc |-> "Uint16", addr |-> 13, order |-> 0, len |-> 0, bit |-> 0, high |-> 0]}

Swapped(p, c) ==
    LET k == 2 * (c.addr - Start)
        n == 2 * RegsOfString(c.len)
    IN [i \in 1..Len(p) |-> IF i > k /\ i <= k + n THEN (IF (i - k) % 2 = 1 THEN p[i + 1] ELSE p[i - 1]) ELSE p[i]]

Init == payload = P0 /\ last = <<>> /\ first = [c \in Calls |-> <<"none">>]
DoCall(c) ==
    LET res == IF Defined(Start, payload, c) THEN <<"ok", ValueOf(Start, payload, BE_HIGH, c)>> ELSE <<"err">>
    IN /\ last' = res
       /\ first' = IF first[c] = <<"none">> THEN [first EXCEPT ![c] = res] ELSE first
       /\ payload' = IF InPlaceSwap /\ c.acc \in {"String", "StringWithByteOrder"} /\ Defined(Start, payload, c)
                        /\ ~IsLE(EffOrder(BE_HIGH, c))
                     THEN Swapped(payload, c) ELSE payload
Next == \E c \in Calls : DoCall(c)

PayloadUnchanged == [][payload' = payload]_<<payload, last, first>>
\* repeating a read, in any order relative to others, yields the result of its first execution
Repeatable == \A c \in Calls : first[c] # <<"none">> =>
                 first[c] = (IF Defined(Start, payload, c) THEN <<"ok", ValueOf(Start, payload, BE_HIGH, c)>> ELSE <<"err">>)
Sane == DocExample
=============================================================================
