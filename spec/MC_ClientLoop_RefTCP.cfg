SPECIFICATION Spec
CONSTANTS Client = "tcp" XMode = "spec"
INVARIANT DoneOK
PROPERTY Terminates
