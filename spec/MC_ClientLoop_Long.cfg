SPECIFICATION Spec
CONSTANTS Client = "rtu" XMode = "long"
INVARIANT DoneOK
PROPERTY Terminates
