INIT Init
NEXT Next
CONSTANT Families = {"F"}
INVARIANT Emit
CHECK_DEADLOCK FALSE
