----------------------------- MODULE Trace_Client -----------------------------
(***************************************************************************)
(* Trace validation of client exchanges (C07 C08 C12 C19).  One exchange = *)
(* reset, [hook.beforeWrite], conn.write, (conn.read [hook.afterRead])*,   *)
(* [hook.beforeParse], return.  The monitor keeps the bytes read so far    *)
(* (D), the cumulative read boundaries, the read awaiting its after-read   *)
(* hook, and the previous exchange's return (for "hooks never change the   *)
(* outcome": the driver runs a script without and then with hooks).        *)
(***************************************************************************)
EXTENDS ClientExchange, TLC, Json, IOUtils

Trace == ndJsonDeserialize(IOEnv.TRACE_FILE)

VARIABLES l, cfg, D, bounds, pend, bwSeen, bpSeen, wrote, touched, lastRet
vars == <<l, cfg, D, bounds, pend, bwSeen, bpSeen, wrote, touched, lastRet>>

None == [none |-> TRUE]
NoCfg == [client |-> "tcp", hooks |-> 0, pair |-> 0, fault |-> "none", reply |-> <<>>, reqBytes |-> <<>>, explen |-> 0,
          timeoutMs |-> 0, req |-> [fc |-> 17, unit |-> 0, addr |-> 0, qty |-> 0, data |-> <<>>, coils |-> <<>>, waddr |-> 0, tid |-> 0]]

Fr == FramingOf(cfg.client)
R == cfg.reply
ReqRec == ReqOfArgs(cfg.req)

----------------------------------------------------------------------------
(* Known findings: wrong ExpectedResponseLength constants (pinned by the   *)
(* repository's tests).  x = the value the request reported for this       *)
(* exchange (logged, not assumed).  The deviation is accepted only for the *)
(* listed (function, framing) classes with the listed formula AND only if  *)
(* the client did exactly what that wrong length implies.                  *)
ExpLenClass ==
    LET x == cfg.explen r == ReqRec IN
    CASE Fr = "rtu" /\ r.fc \in {1, 2, 3, 4} /\ x = RespLenFor("rtu", r) - 1 -> "F1"
      [] Fr = "tcp" /\ r.fc = 5 /\ x = 11                                    -> "F2"
      [] Fr = "rtu" /\ r.fc \in {5, 6} /\ x = 6                              -> "F3"
      [] r.fc = 17 /\ x = (IF Fr = "tcp" THEN 8 ELSE 2)                      -> "F4"
      [] r.fc = 23 /\ x = (IF Fr = "tcp" THEN 17 + 2 * r.qty ELSE 6 + 2 * r.qty) -> "F5"
      [] OTHER -> ""

\* the boundaries the TRANSPORT put between its deliveries (cumulative chunk lengths of the script): a read that ends
\* elsewhere ended where the client's own buffer ended
RECURSIVE ScriptBounds(_, _, _)
ScriptBounds(sc, i, acc) ==
    IF i > Len(sc) THEN {}
    ELSE IF sc[i].k \in {"chunk", "chunkeof", "chunkdl"} THEN {acc + sc[i].n} \cup ScriptBounds(sc, i + 1, acc + sc[i].n)
    ELSE ScriptBounds(sc, i + 1, acc)
\* the client stopped at the first read boundary >= x although the reply is longer, and handed that prefix to the parser
DevShort(ret) ==
    LET x == cfg.explen n == Len(bounds) IN
    /\ x < Len(R)
    /\ n >= 1 /\ Len(D) = bounds[n]
    /\ IsPrefixOf(D, R) /\ Len(D) < Len(R) /\ Len(D) >= x
    /\ Len(D) <= MaxADU(Fr)          \* (more than an ADU can hold must have been refused as too long before anything else)
    /\ Len(D) \in ScriptBounds(cfg.script, 1, 0)   \* (... at a boundary of the transport's making, not of the client's buffer)
    /\ (n = 1 \/ bounds[n - 1] < x)
    /\ (bpSeen \/ cfg.hooks = 0)
    /\ \/ ret.kind = "err" /\ ret.isClientError = 0
       \/ ret.kind = "ok"      \* (FC17 only: a prefix of a server-id reply parses as a shorter server-id reply)
\* the client waited for more bytes than the complete reply has, until its total timeout
DevLong(ret) ==
    /\ cfg.explen > Len(R)
    /\ D = R
    /\ ret.kind = "clienterr" /\ ret.timeoutMsg = 1

Known(v, ret) ==
    IF ExpLenClass # "" /\ cfg.fault = "none" /\ (DevShort(ret) \/ DevLong(ret)) THEN "known:C07-" \o ExpLenClass
    ELSE IF ExpLenClass # "" /\ cfg.fault \in {"stall", "eof", "ioerr", "cancel", "ctxdeadline", "oversize"} /\ DevShort(ret) THEN "known:C08-" \o ExpLenClass
    ELSE v

----------------------------------------------------------------------------
NormRet(e) == [kind |-> e.kind, reenc |-> e.reenc, excUnit |-> e.excUnit, excFc |-> e.excFc, excCode |-> e.excCode,
               isClientError |-> e.isClientError, wrapsCause |-> e.wrapsCause, tooLong |-> e.tooLong,
               timeoutMsg |-> e.timeoutMsg, errCRC |-> e.errCRC]

J_return(e) ==
    LET u == Universal(Fr, ReqRec, R, D, e)
        d == Demand(cfg.fault, Fr, ReqRec, R, D, e, touched)
    IN IF e.keptNow # e.keptThen THEN "response-returned-by-an-earlier-call-changed-when-the-client-was-used-again"
       ELSE IF u # "ok" THEN Known(u, e)
       ELSE IF d # "ok" THEN Known(d, e)
       ELSE IF e.ms > cfg.timeoutMs + 1500 THEN "call-took-much-longer-than-the-configured-timeout"
       ELSE IF cfg.hooks = 1 /\ pend # None THEN "read-not-reported-to-after-read-hook"
       ELSE IF cfg.hooks = 1 /\ e.kind = "ok" /\ ~bpSeen THEN "reply-parsed-without-before-parse-hook"
       ELSE IF cfg.hooks = 1 /\ wrote /\ ~bwSeen THEN "request-written-without-before-write-hook"
       ELSE IF cfg.pair = 1 /\ lastRet # None /\ NormRet(e) # NormRet(lastRet) THEN "installing-hooks-changed-the-outcome"
       ELSE "ok"

Judge(e) ==
    CASE e.ev = "reset" -> "ok"
      [] e.ev = "cancel" -> "ok"
      [] e.ev = "hook.beforeWrite" ->
            IF cfg.hooks = 0 THEN "harness-hook-event-without-hooks"
            ELSE IF wrote THEN "before-write-hook-after-the-write"
            ELSE IF e.bytes # cfg.reqBytes THEN "before-write-hook-bytes-differ-from-encoded-request"
            ELSE "ok"
      [] e.ev = "conn.write" ->
            IF e.bytes # ReqADU(Fr, cfg.req.tid, ReqRec) THEN "bytes-written-differ-from-specified-request-adu"
            ELSE IF cfg.hooks = 1 /\ ~bwSeen THEN "request-written-without-before-write-hook"
            ELSE "ok"
      [] e.ev = "conn.read" ->
            IF cfg.hooks = 1 /\ pend # None THEN "read-not-reported-to-after-read-hook"
            ELSE "ok"
      [] e.ev = "hook.afterRead" ->
            IF cfg.hooks = 0 THEN "harness-hook-event-without-hooks"
            ELSE IF pend = None THEN "after-read-hook-without-a-read"
            ELSE IF e.bytes # pend.bytes \/ e.n # pend.n \/ e.err # pend.err THEN "after-read-hook-arguments-differ-from-the-read"
            ELSE "ok"
      [] e.ev = "hook.beforeParse" ->
            IF cfg.hooks = 0 THEN "harness-hook-event-without-hooks"
            ELSE IF e.bytes # D THEN "before-parse-hook-bytes-differ-from-concatenated-reads"
            ELSE IF pend # None THEN "read-not-reported-to-after-read-hook"
            ELSE "ok"
      [] e.ev = "parse" ->
            \* (observable only with the configurable client) the reply handed to the parser is what was read, and the
            \* before-parse hook has seen exactly these bytes first
            IF e.bytes # D THEN "bytes-handed-to-the-parser-differ-from-the-bytes-read"
            ELSE IF cfg.hooks = 1 /\ ~bpSeen THEN "reply-handed-to-the-parser-without-before-parse-hook"
            ELSE "ok"
      [] e.ev = "return" -> J_return(e)
      [] OTHER -> "unknown-event"

Init == /\ l = 1 /\ cfg = NoCfg /\ D = <<>> /\ bounds = <<>> /\ pend = None /\ bwSeen = FALSE /\ bpSeen = FALSE
        /\ wrote = FALSE /\ touched = FALSE /\ lastRet = None

Next ==
    /\ l <= Len(Trace)
    /\ LET e == Trace[l] v == Judge(e) IN
       /\ IF v = "ok" THEN TRUE ELSE PrintT(<<"VERDICT", l, v>>)
       /\ CASE e.ev = "reset" ->
                 /\ cfg' = e /\ D' = <<>> /\ bounds' = <<>> /\ pend' = None /\ bwSeen' = FALSE /\ bpSeen' = FALSE
                 /\ wrote' = FALSE /\ touched' = FALSE
                 /\ lastRet' = IF e.pair = 1 THEN lastRet ELSE None
            [] e.ev = "hook.beforeWrite" -> bwSeen' = TRUE /\ UNCHANGED <<cfg, D, bounds, pend, bpSeen, wrote, touched, lastRet>>
            [] e.ev = "conn.write" -> wrote' = TRUE /\ touched' = TRUE /\ UNCHANGED <<cfg, D, bounds, pend, bwSeen, bpSeen, lastRet>>
            [] e.ev = "conn.read" ->
                 /\ D' = D \o e.bytes
                 /\ bounds' = IF e.n > 0 THEN Append(bounds, Len(D) + Len(e.bytes)) ELSE bounds
                 /\ pend' = IF cfg.hooks = 1 THEN [bytes |-> e.bytes, n |-> e.n, err |-> e.err] ELSE None
                 /\ touched' = TRUE
                 /\ UNCHANGED <<cfg, bwSeen, bpSeen, wrote, lastRet>>
            [] e.ev = "hook.afterRead" -> pend' = None /\ UNCHANGED <<cfg, D, bounds, bwSeen, bpSeen, wrote, touched, lastRet>>
            [] e.ev = "hook.beforeParse" -> bpSeen' = TRUE /\ UNCHANGED <<cfg, D, bounds, pend, bwSeen, wrote, touched, lastRet>>
            [] e.ev = "return" -> lastRet' = e /\ UNCHANGED <<cfg, D, bounds, pend, bwSeen, bpSeen, wrote, touched>>
            [] OTHER -> UNCHANGED <<cfg, D, bounds, pend, bwSeen, bpSeen, wrote, touched, lastRet>>
    /\ l' = l + 1
Spec == Init /\ [][Next]_vars
AllConsumed == TLCGet("stats").diameter - 1 = Len(Trace)
=============================================================================
