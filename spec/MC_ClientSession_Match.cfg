SPECIFICATION Spec
CONSTANTS NCalls = 3 MatchReply = TRUE Emit = FALSE
INVARIANT OwnReplyOnly
VIEW ViewNoHist
CHECK_DEADLOCK FALSE
