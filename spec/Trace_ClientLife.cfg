SPECIFICATION TSpec
CONSTANTS MaxOps = 0 Emit = FALSE
INVARIANT OnlyCurrentTouched NoIOWithoutConnection OkOnlyOnOpenConnection
POSTCONDITION AllConsumed
CHECK_DEADLOCK FALSE
