SPECIFICATION Spec
CONSTANTS Client = "rtu" XMode = "short"
INVARIANT DoneOK
PROPERTY Terminates
