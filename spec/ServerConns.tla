----------------------------- MODULE ServerConns -----------------------------
(***************************************************************************)
(* Several connections to one server (C15 "bytes left over ... never       *)
(* corrupt the handling of the next", C16 "never ... disturbs other        *)
(* connections").  Every connection carries its own byte stream of request *)
(* frames, cut into reads by a plan; a plan may stop in the middle of a    *)
(* frame (the client goes away).  Reads of different connections           *)
(* interleave arbitrarily.                                                 *)
(*                                                                         *)
(* Reference design: one reassembly buffer PER CONNECTION.  After every    *)
(* read on connection c the bytes sent on c are exactly the replies to the *)
(* frames that have arrived completely ON c.  SharedBuf = TRUE is the      *)
(* design in which all connections feed one buffer: TLC finds the schedule *)
(* in which the left-over of one connection is glued to the request of     *)
(* another.  Bytes are tokens <<c, k, i>> (connection, frame, position),   *)
(* so a reply assembled from foreign bytes is visibly Garbage.             *)
(*                                                                         *)
(* With Emit = TRUE every complete schedule of the reference design is     *)
(* printed as a case for the harness (concrete frames from ServerStream).  *)
(***************************************************************************)
EXTENDS ServerStream, TLC, Json, SequencesExt
CONSTANTS SharedBuf, Emit, Handler

R(fc, unit, addr, qty, data, waddr, wqty) == Req(fc, unit, addr, qty, data, waddr, wqty)
F3(tid)  == TCPADU(tid, 1, ReqPDU(R(3, 1, 10, 2, <<>>, 0, 0)))
F16(tid) == TCPADU(tid, 1, ReqPDU(R(16, 1, 30, 2, <<1, 2, 3, 4>>, 0, 0)))
F5(tid)  == TCPADU(tid, 7, ReqPDU(R(5, 7, 3, CoilOn, <<>>, 0, 0)))

\* the streams of the connections, and the read plans (sequences of read lengths) each may follow
Streams == IF Handler = "device" THEN << <<F3(257)>>, <<F3(514), F16(771)>> >>
           ELSE << <<F3(257)>>, <<F16(514)>>, <<F5(771)>> >>
Conns == 1..Len(Streams)
RECURSIVE TotalLen(_, _)
TotalLen(fs, i) == IF i > Len(fs) THEN 0 ELSE Len(fs[i]) + TotalLen(fs, i + 1)
Plans(c) ==
    IF Handler = "device" THEN
        IF c = 1 THEN {<<12>>, <<5, 7>>, <<5>>, <<11>>, <<7>>}            \* the last three stop inside the frame
        ELSE {<<29>>, <<12, 17>>, <<5, 24>>, <<13, 16>>, <<5, 7, 17>>}
    ELSE {<<TotalLen(Streams[c], 1)>>}

VARIABLES plan, pos, buf, out, open, hist
vars == <<plan, pos, buf, out, open, hist>>
\* pos[c]: reads of plan[c] done; buf: c -> tokens (own buffers) or one shared sequence under key 0

Tokens(c, from, n) ==
    \* the next n stream bytes of connection c starting after `from' bytes, as tokens
    LET fs == Streams[c]
        tokAt(o) == LET ends == EndOffsets(fs, 1, 0)
                        k == CHOOSE j \in DOMAIN ends : o <= ends[j] /\ (j = 1 \/ o > ends[j - 1])
                    IN <<c, k, o - (IF k = 1 THEN 0 ELSE ends[k - 1])>>
    IN [i \in 1..n |-> tokAt(from + i)]

Delivered(c) == LET S[i \in 0..Len(plan[c])] == IF i = 0 THEN 0 ELSE S[i - 1] + plan[c][i] IN S[pos[c]]

Key(c) == IF SharedBuf THEN 0 ELSE c
Garbage == <<0, 0>>      \* a reply assembled from bytes that are not one whole frame of one connection

RECURSIVE Drain(_, _)
\* handle complete frames at the head of buffer b; returns <<rest, replies>>
Drain(b, o) ==
    IF b = <<>> THEN <<b, o>>
    ELSE LET h == b[1] IN
         IF h[3] # 1 THEN <<<<>>, Append(o, Garbage)>>                \* the head is not the start of a frame
         ELSE LET need == Len(Streams[h[1]][h[2]]) IN
              IF Len(b) < need THEN <<b, o>>
              ELSE LET fr == SubSeq(b, 1, need)
                       own == \A i \in 1..need : fr[i] = <<h[1], h[2], i>>
                   IN Drain(SubSeq(b, need + 1, Len(b)), Append(o, IF own THEN <<h[1], h[2]>> ELSE Garbage))

Init ==
    /\ plan \in [Conns -> UNION {Plans(c) : c \in Conns}] /\ \A c \in Conns : plan[c] \in Plans(c)
    /\ pos = [c \in Conns |-> 0]
    /\ buf = [k \in {Key(c) : c \in Conns} |-> <<>>]
    /\ out = [c \in Conns |-> <<>>]
    /\ open = [c \in Conns |-> TRUE]
    /\ hist = <<>>

\* one read of connection c is received and handled
Read(c) ==
    /\ open[c] /\ pos[c] < Len(plan[c])
    /\ LET n == plan[c][pos[c] + 1]
           r == Drain(buf[Key(c)] \o Tokens(c, Delivered(c), n), <<>>)
       IN /\ buf' = [buf EXCEPT ![Key(c)] = r[1]]
          /\ out' = [out EXCEPT ![c] = out[c] \o r[2]]        \* replies go to the connection whose read produced them
    /\ pos' = [pos EXCEPT ![c] = pos[c] + 1]
    /\ hist' = Append(hist, [a |-> "read", c |-> c, n |-> plan[c][pos[c] + 1]])
    /\ UNCHANGED <<plan, open>>

\* the client of connection c goes away (possibly in the middle of a frame); its own buffer dies with it
Leave(c) ==
    /\ open[c] /\ pos[c] = Len(plan[c])
    /\ open' = [open EXCEPT ![c] = FALSE]
    /\ buf' = IF SharedBuf THEN buf ELSE [buf EXCEPT ![c] = <<>>]
    /\ hist' = Append(hist, [a |-> "leave", c |-> c, n |-> 0])
    /\ UNCHANGED <<plan, pos, out>>

Done == \A c \in Conns : ~open[c]
Next == (\E c \in Conns : Read(c) \/ Leave(c)) \/ (Done /\ UNCHANGED vars)
Spec == Init /\ [][Next]_vars

CompletedOn(c) == Completed(Streams[c], Delivered(c))
\* C15/C16 across connections: what was sent on c is exactly the replies to the frames completed on c
OwnRepliesOnly == \A c \in Conns : out[c] = [i \in 1..CompletedOn(c) |-> <<c, i>>]

EmitDone == (Emit /\ Done) =>
    PrintT(<<"CASE", ToJson([op |-> "conns", streams |-> Streams, handler |-> Handler, steps |-> hist, e2e |-> TRUE,
                             frames |-> <<>>, segs |-> <<>>])>>)
=============================================================================
