----------------------------- MODULE Trace_Split -----------------------------
(***************************************************************************)
(* Trace validation for the request builder: batching (C06) and            *)
(* end-to-end extraction against a conforming device (C05).                *)
(* Events are self-contained (an extract event repeats the request         *)
(* descriptor it belongs to), so the monitor state is the position only.   *)
(* Verdicts starting with "harness-" mean the DRIVER supplied something    *)
(* wrong (e.g. a device answer that is not what the specification's        *)
(* device would send): infrastructure trouble, never a violation.          *)
(***************************************************************************)
EXTENDS Splitter, TLC, Json, IOUtils

Trace == ndJsonDeserialize(IOEnv.TRACE_FILE)
VARIABLE l

MayRefuse(fields, t) ==
    \/ \E i \in DOMAIN fields : ~ValidField(fields[i])
    \/ \E i \in DOMAIN fields : LET f == fields[i] IN
          IsCoil(f) = WantsCoils(t) /\ (FieldSize(f) > Limit(t) \/ FieldEnd(f) > 65536)

J_split(e) ==
    IF e.outcome = "panic" THEN "panic"
    \* C06: "either returns an error or ...".  C05 quantifies over VALID definitions: there the builder may refuse only
    \* what it cannot serve - an invalid definition anywhere in the list, or a field that cannot lie in one request
    ELSE IF e.outcome = "err" THEN
         (IF IOEnv.VERIF_PROP = "C05" /\ ~MayRefuse(e.fields, e.target) THEN "builder-refused-valid-field-definitions" ELSE "ok")
    ELSE SplitVerdict(e.fields, e.target, e.requests)

Reachable(q, trunc, f) ==
    /\ f.addr >= q.start
    /\ FieldEnd(f) <= q.start + q.qty - trunc
    /\ f.bit \in 0..15

TidOf(framing, bytes) == IF framing = "tcp" THEN bytes[1] * 256 + bytes[2] ELSE 0

J_extract(e) ==
    LET q == e.req
        n == q.qty - e.truncBy
        answer == RespADU(e.target.framing, TidOf(e.target.framing, q.bytes),
                          Resp(e.target.fc, q.unit, 0, 0, MemBytes(e.mem, q.server, q.unit, q.start, n), <<>>, 0, <<>>))
        allReach == \A i \in DOMAIN q.fields : Reachable(q, e.truncBy, q.fields[i])
        vfields == [i \in DOMAIN e.values |-> e.values[i].field]
    IN IF e.outcome = "panic" \/ e.parsed = "panic" THEN "panic"
       ELSE IF n < 1 THEN "harness-truncated-to-nothing"
       ELSE IF e.response # answer THEN "harness-device-answer-differs-from-specified-device"
       ELSE IF e.parsed # "ok" THEN "well-formed-device-answer-not-parsed"
       ELSE IF e.mode = "strict" /\ ~allReach THEN
            (IF e.outcome = "err" /\ Len(e.values) = 0 THEN "ok" ELSE "strict-extraction-did-not-fail-as-a-whole")
       ELSE IF e.outcome # "ok" THEN "extraction-failed-although-fields-are-in-the-response"
       ELSE IF \E v \in Range(q.fields) \cup Range(vfields) : CountIn(q.fields, v) # CountIn(vfields, v)
            THEN "field-not-reported-exactly-once-with-its-own-definition"
       ELSE IF \E i \in DOMAIN e.values : (e.values[i].err = 1) # (~Reachable(q, e.truncBy, e.values[i].field))
            THEN "failed-marks-differ-from-unreachable-fields"
       ELSE IF \E i \in DOMAIN e.values : e.values[i].err = 0 /\ e.values[i].value # ExtractOracle(e.mem, e.values[i].field)
            THEN "extracted-value-differs-from-device-memory"
       ELSE "ok"

Judge(e) ==
    CASE e.ev = "split"   -> J_split(e)
      [] e.ev = "extract" -> J_extract(e)
      \* the driver's watchdog: the case was still running (no event for a minute, or the heap beyond 6 GiB)
      [] e.ev = "runaway" -> "library-call-does-not-return"
      [] OTHER            -> "unknown-event"

Init == l = 1
Next ==
    /\ l <= Len(Trace)
    /\ LET v == Judge(Trace[l]) IN IF v = "ok" THEN TRUE ELSE PrintT(<<"VERDICT", l, v>>)
    /\ l' = l + 1
Spec == Init /\ [][Next]_l
AllConsumed == TLCGet("stats").diameter - 1 = Len(Trace)
=============================================================================
