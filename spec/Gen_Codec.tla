----------------------------- MODULE Gen_Codec -----------------------------
(***************************************************************************)
(* Phase A+B for the codec family (C01 C02 C03 C09 C10 C11 C18).           *)
(* TLC enumerates the specification's own case space (one initial state    *)
(* per case), checks on every case that the specification is consistent    *)
(* with itself (encode/decode inverse, size limits, classification of the  *)
(* frames it builds) and prints the case as JSON for the Go driver.        *)
(* Cases carry inputs only.  Keys starting with "_" are annotations used   *)
(* by the self-consistency invariant; the driver ignores them and the      *)
(* trace monitor never sees them.                                          *)
(***************************************************************************)
EXTENDS ModbusPDU, CodecAPI, TLC, Json, FiniteSets, SequencesExt

CONSTANTS Set, Tier,   \* which case space, "quick" / "thorough" (set in the generated .cfg)
          Part, Parts   \* this run generates the cases whose partition key is Part modulo Parts (parallel generation)
InPart(k) == k % Parts = Part
Thorough == Tier = "thorough"

VARIABLE c

----------------------------------------------------------------------------
Pat(p, n) ==
    [i \in 1..n |-> CASE p = "zeros" -> 0
                      [] p = "ones"  -> 255
                      [] p = "alt"   -> IF i % 2 = 1 THEN 170 ELSE 85
                      [] p = "ramp"  -> i % 256
                      [] p = "hash"  -> (i * 37 + 11) % 256
                      [] p = "high"  -> IF i % 2 = 1 THEN 128 ELSE 1]
Pats == {"zeros", "ones", "alt", "ramp", "hash"}

CoilPat(p, n) ==
    [i \in 1..n |-> CASE p = "zeros" -> 0
                      [] p = "ones"  -> 1
                      [] p = "alt"   -> i % 2
                      [] p = "first" -> IF i = 1 THEN 1 ELSE 0
                      [] p = "last"  -> IF i = n THEN 1 ELSE 0
                      [] p = "hash"  -> ((i * 7) \div 3) % 2]
CoilPats == {"zeros", "ones", "alt", "first", "last", "hash"}

\* header value combinations <<unit, addr, tid>> (not a full cross product)
HC == { <<0, 0, 0>>, <<1, 1, 1>>, <<247, 255, 255>>, <<255, 256, 65280>>, <<17, 65535, 65535>>,
        <<1, 4660, 4660>> }
HCq == IF Thorough THEN HC ELSE { <<1, 1, 1>>, <<255, 256, 65280>>, <<17, 65535, 65535>> }
Framings == {"tcp", "rtu"}

Around(x) == {x - 1, x, x + 1}
QtyProbe(limit) == ({0, 1, 2, 7, 8, 9, 15, 16, 17, 2047, 2048, 32768, 65535} \cup Around(limit)) \cap 0..65535

NewReq(fc, fr, h, qty, data, coils, waddr) ==
    [op |-> "newreq", fc |-> fc, framing |-> fr, unit |-> h[1], addr |-> h[2], tid |-> h[3],
     qty |-> qty, data |-> data, coils |-> coils, waddr |-> waddr]

C01Cases(z) ==
    {NewReq(fc, fr, h, q, <<>>, <<>>, 0) :
        fc \in {1, 2}, fr \in Framings, h \in HCq, q \in QtyProbe(2000)}
    \cup {NewReq(fc, fr, h, q, <<>>, <<>>, 0) :
        fc \in {3, 4}, fr \in Framings, h \in HCq, q \in QtyProbe(125)}
    \cup {NewReq(5, fr, h, q, <<>>, <<>>, 0) : fr \in Framings, h \in HC, q \in {0, 1}}
    \cup {NewReq(6, fr, h, 0, d, <<>>, 0) : fr \in Framings, h \in HC,
            d \in {<<0, 0>>, <<255, 255>>, <<18, 52>>, <<0, 1>>, <<128, 0>>}}
    \cup {NewReq(15, fr, h, n, <<>>, CoilPat(p, n), 0) : fr \in Framings, h \in HCq, p \in CoilPats,
            n \in {0, 1, 2, 7, 8, 9, 15, 16, 17, 23, 24, 25, 1967, 1968, 1969, 2000}}
    \cup {NewReq(16, fr, h, n, Pat(p, 2 * n), <<>>, 0) : fr \in Framings, h \in HCq, p \in Pats,
            n \in {0, 1, 2, 3, 122, 123, 124, 125, 127, 128}}
    \cup {NewReq(16, fr, <<1, 1, 1>>, 0, Pat("ramp", n), <<>>, 0) : fr \in Framings, n \in {1, 3, 5, 245, 247}}
    \cup {NewReq(17, fr, h, 0, <<>>, <<>>, 0) : fr \in Framings, h \in HC}
    \cup {NewReq(23, fr, h, rq, Pat(p, 2 * wn), <<>>, w) : fr \in Framings, h \in HCq, p \in {"ramp", "ones"},
            rq \in {0, 1, 2, 124, 125, 126}, wn \in {0, 1, 2, 120, 121, 122, 123, 124, 125}, w \in {0, 65535}}

\* the specification's encode/decode are inverse and legal frames fit the ADU limits
C01Self(k) ==
    LET r == ReqOfArgs(k) IN
    LegalReq(r) /\ (k.fc \notin {16, 23} \/ Len(k.data) % 2 = 0) =>
        /\ Len(ReqADU("tcp", k.tid, r)) <= MaxTCPADU
        /\ Len(ReqADU("rtu", k.tid, r)) <= MaxRTUADU
        /\ LET d == DecodeTCPReq(ReqADU("tcp", k.tid, r)) IN d.ok /\ d.r = r /\ d.tid = k.tid
        /\ LET d == DecodeRTUReq(ReqADU("rtu", k.tid, r)) IN d.ok /\ d.r = r
        /\ (k.fc = 15 => UnpackCoils(r.data, r.qty) = k.coils)

----------------------------------------------------------------------------
(* C02: response frames *)
PR(entry, fr, frame, want) == [op |-> "parseresp", entry |-> entry, framing |-> fr, frame |-> frame, _want |-> want]

BCcoil == IF Thorough THEN 1..255 ELSE {1, 2, 3, 4, 125, 249, 250, 251, 252, 253, 254, 255}
BCreg  == IF Thorough THEN {2 * k : k \in 1..127} ELSE {2, 4, 6, 8, 124, 248, 250, 252, 254}
PatsQ  == IF Thorough THEN Pats ELSE {"ramp", "high"}

NormalResps(z) ==
    {Resp(fc, h[1], 0, 0, Pat(p, n), <<>>, 0, <<>>) : fc \in {1, 2}, h \in HCq, p \in PatsQ, n \in BCcoil}
    \cup {Resp(fc, h[1], 0, 0, Pat(p, n), <<>>, 0, <<>>) : fc \in {3, 4, 23}, h \in HCq, p \in PatsQ, n \in BCreg}
    \cup {Resp(5, h[1], h[2], v, <<>>, <<>>, 0, <<>>) : h \in HC, v \in {CoilOn, CoilOff}}
    \cup {Resp(6, h[1], h[2], 0, d, <<>>, 0, <<>>) : h \in HC, d \in {<<0, 0>>, <<255, 255>>, <<18, 52>>}}
    \cup {Resp(15, h[1], h[2], q, <<>>, <<>>, 0, <<>>) : h \in HC, q \in {1, 8, 1968}}
    \cup {Resp(16, h[1], h[2], q, <<>>, <<>>, 0, <<>>) : h \in HC, q \in {1, 2, 123}}
    \cup {Resp(17, h[1], 0, 0, <<>>, Pat("ramp", il), st, Pat("hash", xl)) :
            h \in HCq, il \in {1, 2, 5, 100, 253, 255}, st \in {0, 255}, xl \in {0, 1, 4, 100}}

TidsFor(r) == IF Thorough THEN {0, 1, 65535, 4660} ELSE {1, 65280}

C02Normal(z) ==
    UNION {{PR(e, fr, RespADU(fr, t, r), "normal") : e \in RespEntries(fr, r.fc)} :
             fr \in Framings, r \in {x \in NormalResps(0) : InPart(Len(x.data) + Len(x.id) + x.unit + x.fc)}, t \in {4660}}
    \cup UNION {{PR(e, "tcp", RespADU("tcp", t, r), "normal") : e \in RespEntries("tcp", r.fc)} :
             r \in {x \in NormalResps(0) : Len(x.data) <= 4 /\ Len(x.id) <= 2 /\ InPart(Len(x.data) + x.unit + x.fc)}, t \in TidsFor(0)}

ExcCodes == IF Thorough THEN 0..255 ELSE {0, 1, 2, 3, 4, 5, 6, 8, 10, 11, 127, 128, 255}
ExcFcs   == IF Thorough THEN 0..127 ELSE {0, 1, 2, 3, 4, 5, 6, 15, 16, 17, 23, 43, 100, 127}
C02Exc(z) ==
    UNION {{PR(e, fr, ExcADU(fr, 4660, u, f, code), "exception") : e \in DispEntries(fr)} :
             fr \in Framings, u \in {1, 255}, f \in ExcFcs, code \in {x \in ExcCodes : InPart(x)}}

\* byte-count field b against a payload of p bytes
MismatchPDU(fc, b, p) == <<fc, b>> \o Pat("ramp", p)
MismatchBP(z) == { bp \in (IF Thorough THEN 0..255 ELSE {0, 1, 2, 3, 4, 6, 100, 250, 255})
                        \X {0, 1, 2, 3, 4, 5, 6, 8, 98, 99, 100, 101, 102, 248, 249, 250} :
                  bp[1] # bp[2] /\ (bp[1] - bp[2] \in -2..2 \/ bp[2] \in {0, 250} \/ bp[1] \in {0, 255}) }
              \* payloads longer than the count by a multiple of 256 (a length compared in 8 bits would agree)
              \cup {<<1, 257>>, <<2, 258>>, <<4, 260>>, <<250, 506>>, <<3, 515>>, <<0, 256>>}
IdLenP(z) == { ip \in {1, 2, 5, 255} \X {0, 1, 2, 4, 5} : ip[1] + 1 > ip[2] }
C02Mismatch(z) ==
    UNION {{PR(e, fr, IF fr = "tcp" THEN TCPADU(7, 1, MismatchPDU(fc, bp[1], bp[2])) ELSE RTUADU(1, MismatchPDU(fc, bp[1], bp[2])), "mismatch")
              : e \in RespEntries(fr, fc)} :
             fr \in Framings, fc \in {1, 2, 3, 4, 23},
             bp \in MismatchBP(0)}
    \cup UNION {{PR(e, fr, IF fr = "tcp" THEN TCPADU(7, 1, <<17, ip[1]>> \o Pat("ramp", ip[2])) ELSE RTUADU(1, <<17, ip[1]>> \o Pat("ramp", ip[2])), "mismatch")
              : e \in RespEntries(fr, 17)} :
             fr \in Framings, ip \in IdLenP(0)}

\* a well-formed TCP frame followed by bytes its header and byte count do not account for
C02Trailing(z) ==
    UNION {{PR(e, "tcp", RespADU("tcp", 4660, r) \o x, "mismatch") : e \in RespEntries("tcp", r.fc)} :
             r \in {Resp(fc, 1, 0, 0, Pat("ramp", n), <<>>, 0, <<>>) : fc \in {1, 2, 3, 4, 23}, n \in {2, 4, 250}},
             x \in {<<0>>, <<1, 2>>, <<255, 255, 255>>}}
\* an exception frame followed by stray bytes, and one cut short: neither is a response
C02ExcTrailing(z) ==
    UNION {{PR(e, "tcp", ExcADU("tcp", 4660, 1, f, code) \o x, "mismatch") : e \in DispEntries("tcp")} :
             f \in {1, 3, 17, 100}, code \in {1, 2, 11, 200}, x \in {<<0>>, <<1, 2>>, <<255, 255, 255>>}}
C02Cases(z) == C02Normal(0) \cup C02Exc(0) \cup (IF Part = 0 THEN C02Mismatch(0) \cup C02Trailing(0) \cup C02ExcTrailing(0) ELSE {})

C02Self(k) == LET kd == ClassifyResp(k.framing, k.frame).kind IN kd = k._want \/ (k._want = "normal" /\ kd = "oversize")

----------------------------------------------------------------------------
(* C09: request frames for the parsers.  Legal frames come from the C01    *)
(* space (encoded by the SPEC here, so parsers are tested independently of *)
(* the library's encoders) plus out-of-limit variants.                     *)
PQ(entry, fr, frame, want) == [op |-> "parsereq", entry |-> entry, framing |-> fr, frame |-> frame, _want |-> want]

ReqSamples(z) ==
    {Req(fc, h[1], h[2], q, <<>>, 0, 0) : fc \in {1, 2}, h \in HCq, q \in QtyProbe(2000) \cup {125, 126}}
    \cup {Req(fc, h[1], h[2], q, <<>>, 0, 0) : fc \in {3, 4}, h \in HCq, q \in QtyProbe(125)}
    \cup {Req(5, h[1], h[2], v, <<>>, 0, 0) : h \in HCq, v \in {CoilOn, CoilOff, 1, 255, 65281, 65535, 256}}
    \cup {Req(6, h[1], h[2], 0, d, 0, 0) : h \in HC, d \in {<<0, 0>>, <<255, 255>>, <<18, 52>>}}
    \cup {Req(15, h[1], h[2], n, Pat(p, CeilDiv8(n)), 0, 0) : h \in HCq, p \in {"ramp", "ones"},
            n \in {1, 2, 7, 8, 9, 16, 17, 1967, 1968}}
    \cup {Req(15, h[1], h[2], n, Pat("ramp", 2), 0, 0) : h \in HCq, n \in {0, 1969, 2000, 65535}}
    \* out-of-limit counts with a byte count and payload that AGREE with them (the frame is self-consistent, only the limit is crossed)
    \cup {Req(15, 1, 20, n, Pat("ramp", CeilDiv8(n)), 0, 0) : n \in {1969, 1976, 2000, 2033, 2040}}
    \cup {Req(16, 1, 30, n, Pat("ramp", 2 * n), 0, 0) : n \in {124, 125, 127}}
    \cup {Req(23, 1, 40, 1, Pat("ramp", 2 * wn), 50, wn) : wn \in {122, 123, 127}}
    \cup {Req(16, h[1], h[2], n, Pat(p, 2 * n), 0, 0) : h \in HCq, p \in {"ramp", "ones"}, n \in {1, 2, 3, 122, 123}}
    \cup {Req(16, h[1], h[2], n, Pat("ramp", 4), 0, 0) : h \in HCq, n \in {0, 124, 125, 65535}}
    \cup {Req(17, h[1], 0, 0, <<>>, 0, 0) : h \in HC}
    \cup {Req(23, h[1], h[2], rq, Pat("ramp", 2 * wn), w, wn) : h \in HCq,
            rq \in {1, 2, 124, 125}, wn \in {1, 2, 120, 121}, w \in {0, 65535}}
    \cup {Req(23, h[1], h[2], rqwn[1], Pat("ramp", 4), 3, rqwn[2]) : h \in HCq,
            rqwn \in {<<0, 2>>, <<126, 2>>, <<65535, 2>>, <<1, 0>>, <<1, 122>>, <<1, 65535>>}}

\* the record as the frame's own fields say (ReqPDU writes Len(data) as byte count)
C09Cases(z) ==
    UNION {{PQ(e, fr, ReqADU(fr, 4660, r), IF LegalReq(r) THEN "legal" ELSE "illegal") : e \in ReqEntries(fr, r.fc)} :
             fr \in Framings, r \in ReqSamples(0)}
    \* per-function RTU parsers also accept the frame without its CRC trailer
    \cup {PQ("Parse" \o FcName(r.fc) \o "RequestRTU", "rtunocrc", <<r.unit>> \o ReqPDU(r),
             IF LegalReq(r) THEN "legal" ELSE "illegal") : r \in ReqSamples(0)}

C09Self(k) ==
    LET d == CASE k.framing = "tcp" -> DecodeTCPReq(k.frame)
               [] k.framing = "rtu" -> DecodeRTUReq(k.frame)
               [] OTHER -> DecodeReqPDU(k.frame[1], SubSeq(k.frame, 2, Len(k.frame)))
    IN IF k._want = "legal" THEN d.ok /\ LegalReq(d.r)
       ELSE d.ok /\ ~LegalReq(d.r) /\ OutOfLimitReq(d.r)

----------------------------------------------------------------------------
(* C11: coil lookups *)
OneHot(len, pos) == [i \in 1..len |-> IF i = (pos \div 8) + 1 THEN Pow2(pos % 8) ELSE 0]
CoilPayloads(z) ==
    {OneHot(lp[1], lp[2]) : lp \in {x \in (1..3) \X (0..23) : x[2] < 8 * x[1]}}
    \cup {OneHot(250, pos) : pos \in {0, 1, 7, 8, 9, 1000, 1991, 1992, 1999}}
    \cup {Pat(p, n) : p \in {"ramp", "hash", "ones", "zeros"}, n \in {1, 2, 3, 4, 250}}
CoilQueries(len, start) ==
    ({start + i : i \in (0..(8 * len + 9)) \cup {-1, -2, -8, -9}} \cup {0, 65535, start + 32768, start + 65528}) \cap 0..65535
C11Cases(z) ==
    UNION {{[op |-> "coil", fc |-> m[1], method |-> m[2], payload |-> pl, start |-> st, addr |-> a] :
               a \in IF Len(pl) <= 4 THEN CoilQueries(Len(pl), st)
                     ELSE ({st + i : i \in {0, 1, 7, 8, 9, 999, 1000, 1001, 1991, 1992, 1999, 2000, 2001}} \cup {st - 1, 0, 65535}) \cap 0..65535} :
             pl \in CoilPayloads(0), st \in (IF Thorough THEN {0, 1, 100, 65000, 63535} ELSE {0, 100, 65000}),
             m \in {<<1, "IsCoilSet">>, <<2, "IsCoilSet">>, <<2, "IsInputSet">>}}

C11Extra(z) ==
    {[op |-> "coilextract", fc |-> fc, payload |-> pl, start |-> st, data |-> SetToSeq(CoilQueries(Len(pl), st))] :
        fc \in {1, 2}, pl \in {OneHot(2, 9), OneHot(3, 0), Pat("ramp", 3), Pat("hash", 4), <<5>>}, st \in {0, 100, 65520}}
    \cup {[op |-> "coilroundtrip", framing |-> fr, unit |-> 1, addr |-> st, coils |-> CoilPat(p, n)] :
        fr \in Framings, st \in {0, 1000}, p \in CoilPats,
        n \in (IF Thorough THEN 1..64 \cup {100, 1000, 1967, 1968} ELSE {1, 2, 7, 8, 9, 15, 16, 17, 24, 25, 100, 1968})}
\* (pack/unpack being inverse in the specification itself is checked by C01Self on every FC15 case)
C11Self(k) == TRUE

----------------------------------------------------------------------------
(* C03: messages for the checksum, RTU frames with trailer variants *)
C03Msgs(z) ==
    {[op |-> "crc", msg |-> m] : m \in {<<>>, <<0>>, <<255>>, <<1, 4, 2, 255, 255>>, <<49, 50, 51, 52, 53, 54, 55, 56, 57>>}}
    \cup {[op |-> "crc", msg |-> Pat(p, n)] : p \in Pats, n \in {1, 2, 3, 7, 8, 9, 64, 65, 255, 256, 257, 300}}
    \cup {[op |-> "crc", msg |-> <<a, b>>] : a \in {0, 1, 128, 255}, b \in 0..255}
    \cup {[op |-> "crcsweep", table |-> [i \in 1..256 |-> CRCTable[i - 1]], init |-> CRCInit]}

TrailerFrames(z) ==
    {RTUADU(1, ReqPDU(Req(3, 1, 0, 10, <<>>, 0, 0))),
     RTUADU(17, ReqPDU(Req(16, 17, 5, 2, <<1, 2, 3, 4>>, 0, 0))),
     RTUADU(255, ReqPDU(Req(17, 255, 0, 0, <<>>, 0, 0))),
     RTUADU(1, RespPDU(Resp(3, 1, 0, 0, <<174, 65, 86, 82>>, <<>>, 0, <<>>))),
     RTUADU(1, RespPDU(Resp(1, 1, 0, 0, <<205>>, <<>>, 0, <<>>))),
     RTUADU(10, ExcPDU(1, 2))}
IsReqFrame(f) == f \in {RTUADU(1, ReqPDU(Req(3, 1, 0, 10, <<>>, 0, 0))),
                        RTUADU(17, ReqPDU(Req(16, 17, 5, 2, <<1, 2, 3, 4>>, 0, 0))),
                        RTUADU(255, ReqPDU(Req(17, 255, 0, 0, <<>>, 0, 0)))}
TrailerVariants(f) ==
    LET n == Len(f) lo == f[n - 1] hi == f[n] IN
    <<lo, hi, hi, lo, 0, 0, 255, 255, (lo + 1) % 256, hi, lo, (hi + 1) % 256, (lo + 255) % 256, hi, lo, (hi + 255) % 256>>
    \o [i \in 1..32 |-> LET k == (i - 1) \div 2 IN
            IF i % 2 = 1 THEN (IF k < 8 THEN (IF BitOf(lo, k) = 1 THEN lo - Pow2(k) ELSE lo + Pow2(k)) ELSE lo)
            ELSE (IF k >= 8 THEN (IF BitOf(hi, k - 8) = 1 THEN hi - Pow2(k - 8) ELSE hi + Pow2(k - 8)) ELSE hi)]
C03Trailers(z) ==
    {[op |-> "trailer", entry |-> IF IsReqFrame(f) THEN "ParseRTURequestWithCRC" ELSE "ParseRTUResponseWithCRC",
      frame |-> f, data |-> TrailerVariants(f), tag |-> "list"] : f \in TrailerFrames(0)}
    \cup (IF Thorough THEN
          {[op |-> "trailer", entry |-> IF IsReqFrame(f) THEN "ParseRTURequestWithCRC" ELSE "ParseRTUResponseWithCRC",
            frame |-> f, data |-> <<>>, tag |-> "all"] : f \in TrailerFrames(0)}
          ELSE {[op |-> "trailer", entry |-> "ParseRTUResponseWithCRC",
                 frame |-> RTUADU(1, RespPDU(Resp(3, 1, 0, 0, <<174, 65, 86, 82>>, <<>>, 0, <<>>))), data |-> <<>>, tag |-> "all"]})
\* "every RTU frame the library emits ends with that CRC": RTU responses of every function (every byte count the
\* format can carry, 1..255), RTU requests and exception frames are parsed and emitted again
C03EmitResps(z) ==
    {Resp(fc, 17, 0, 0, Pat("ramp", n), <<>>, 0, <<>>) : fc \in {1, 2}, n \in (IF Thorough THEN 1..255 ELSE {1, 2, 125, 250, 251, 252, 253, 254, 255})}
    \cup {Resp(fc, 17, 0, 0, Pat("ramp", n), <<>>, 0, <<>>) : fc \in {3, 4, 23}, n \in (IF Thorough THEN {2 * k : k \in 1..127} ELSE {2, 4, 124, 250, 252, 254})}
    \cup {Resp(5, 17, 3, CoilOn, <<>>, <<>>, 0, <<>>), Resp(6, 17, 3, 0, <<18, 52>>, <<>>, 0, <<>>), Resp(15, 17, 3, 9, <<>>, <<>>, 0, <<>>),
          Resp(16, 17, 3, 2, <<>>, <<>>, 0, <<>>)}
    \cup {Resp(17, 17, 0, 0, <<>>, Pat("ramp", il), 255, Pat("hash", xl)) : il \in {1, 2, 100, 253, 255}, xl \in {0, 1, 100}}
C03Emit(z) ==
    UNION {{PR(e, "rtu", RespADU("rtu", 0, r), "normal") : e \in RespEntries("rtu", r.fc)} : r \in C03EmitResps(0)}
    \cup UNION {{PQ(e, "rtu", ReqADU("rtu", 0, r), "legal") : e \in ReqEntries("rtu", r.fc)} : r \in {x \in ReqSamples(0) : LegalReq(x) /\ x.unit = 1 /\ ~(x.fc \in {1, 2} /\ x.qty > 125)}}   \* (not the requests of known finding C09-F1)
    \cup UNION {{PR(e, "rtu", ExcADU("rtu", 0, u, f, code), "exception") : e \in DispEntries("rtu")} : u \in {1, 255}, f \in {1, 3, 16, 23, 100}, code \in {1, 2, 11, 255}}
    \cup {[op |-> "emitexc", unit |-> u, fc |-> f, qty |-> code] : u \in {0, 1, 255}, f \in 0..255, code \in (IF Thorough THEN {0, 1, 2, 4, 11, 128, 255} ELSE {1, 4, 255})}
    \* write requests whose count field disagrees with their byte count (the parsers may or may not accept them; what an
    \* accepting parser emits again must still carry a consistent CRC)
    \cup UNION {{PQ(e, "rtu", RTUADU(1, <<16, 0, 16, 0, cnt, bc>> \o Pat("ramp", bc)), "any") : e \in ReqEntries("rtu", 16)} : cnt \in {1, 2, 3, 100}, bc \in {2, 4, 6}}
    \cup UNION {{PQ(e, "rtu", RTUADU(1, <<15, 0, 16, 0, cnt, bc>> \o Pat("ramp", bc)), "any") : e \in ReqEntries("rtu", 15)} : cnt \in {1, 9, 17, 1000}, bc \in {1, 2, 3}}
    \cup UNION {{PQ(e, "rtu", RTUADU(1, <<23, 0, 1, 0, 2, 0, 16, 0, cnt, bc>> \o Pat("ramp", bc)), "any") : e \in ReqEntries("rtu", 23)} : cnt \in {1, 2, 3, 100}, bc \in {2, 4, 6}}
C03Cases(z) == C03Msgs(0) \cup C03Trailers(0) \cup C03Emit(0)
C03Self(k) == k.op = "crc" => CRC(k.msg) = CRCSlow(k.msg)

----------------------------------------------------------------------------
(* C18: classifier cases: every encodable request frame x every prefix *)
ClsFrames(z) ==
    {ReqADU("tcp", h[3], r) : h \in {<<1, 1, 1>>}, r \in
        {Req(fc, 1, 10, 3, <<>>, 0, 0) : fc \in {1, 2, 3, 4}}
        \cup {Req(5, 1, 10, CoilOn, <<>>, 0, 0), Req(6, 1, 10, 0, <<1, 2>>, 0, 0), Req(17, 9, 0, 0, <<>>, 0, 0),
              Req(15, 1, 10, 9, <<255, 1>>, 0, 0), Req(16, 1, 10, 2, <<1, 2, 3, 4>>, 0, 0),
              Req(23, 1, 10, 2, <<1, 2, 3, 4>>, 20, 2),
              Req(16, 255, 65535, 123, Pat("ramp", 246), 0, 0), Req(15, 0, 0, 1968, Pat("ones", 246), 0, 0),
              Req(23, 7, 1, 125, Pat("hash", 242), 2, 121)}}
C18Prefix(z) ==
    UNION {{[op |-> "classify", frame |-> SubSeq(f, 1, n), allow |-> a, tag |-> "prefix", _full |-> Len(f)] :
              n \in (IF Len(f) <= 20 \/ Thorough THEN 0..Len(f) ELSE (0..14) \cup {Len(f) - 1, Len(f)}), a \in {FALSE}} :
             f \in ClsFrames(0)}
C18Hdr(z) ==
    {[op |-> "classify", frame |-> <<18, 52>> \o U16(pr) \o U16(l) \o <<17, fc>> \o body, allow |-> a, tag |-> "hdr", _full |-> 0] :
        pr \in {0, 1, 256}, l \in {0, 1, 2, 3, 4, 5, 6, 7, 8, 11, 253, 254, 255, 256, 300, 65535},
        fc \in (IF Thorough THEN 0..255 ELSE {0, 1, 2, 3, 4, 5, 6, 7, 8, 15, 16, 17, 20, 23, 24, 43, 100, 127, 128, 129, 255}),
        body \in {<<>>, <<0, 0, 0, 1>>}, a \in {FALSE, TRUE}}
C18Cases(z) == C18Prefix(0) \cup C18Hdr(0)
C18Self(k) == k.tag = "prefix" =>
    LET cl == Classify(k.frame) IN IF Len(k.frame) < 8 THEN cl.kind = "short" ELSE cl.kind = "ok" /\ cl.n = k._full

----------------------------------------------------------------------------
(* C10: structured hostile inputs: every prefix of boundary frames, the    *)
(* same prefixes with the MBAP length rewritten to match, byte-count       *)
(* fields 0/1/actual+-1/255, for every entry point that takes that framing *)
SmallReqs == {Req(fc, 1, 10, 3, <<>>, 0, 0) : fc \in {1, 2, 3, 4}}
        \cup {Req(5, 1, 10, CoilOn, <<>>, 0, 0), Req(6, 1, 10, 0, <<1, 2>>, 0, 0), Req(17, 9, 0, 0, <<>>, 0, 0),
              Req(15, 1, 10, 9, <<255, 1>>, 0, 0), Req(16, 1, 10, 2, <<1, 2, 3, 4>>, 0, 0),
              Req(23, 1, 10, 2, <<1, 2, 3, 4>>, 20, 2)}
SmallResps == {Resp(fc, 1, 0, 0, <<1, 2>>, <<>>, 0, <<>>) : fc \in {1, 2, 3, 4, 23}}
        \cup {Resp(5, 1, 3, CoilOn, <<>>, <<>>, 0, <<>>), Resp(6, 1, 3, 0, <<1, 2>>, <<>>, 0, <<>>),
              Resp(15, 1, 3, 9, <<>>, <<>>, 0, <<>>), Resp(16, 1, 3, 2, <<>>, <<>>, 0, <<>>),
              Resp(17, 1, 0, 0, <<>>, <<65, 66>>, 255, <<1, 2>>)}

PA(entry, frame, tail) == [op |-> "parseany", entry |-> entry, frame |-> frame, tail |-> tail]
\* rewrite the MBAP length field of a (>= 6 byte) TCP prefix so that it is consistent with the prefix
Relen(f) == IF Len(f) < 6 THEN f ELSE SubSeq(f, 1, 4) \o U16(Len(f) - 6) \o SubSeq(f, 7, Len(f))
\* replace byte i (1-based) of f
SetByte(f, i, v) == [f EXCEPT ![i] = v]

TCPFramesForC10(z) == {ReqADU("tcp", 4660, r) : r \in SmallReqs} \cup {RespADU("tcp", 4660, r) : r \in SmallResps}
                   \cup {ExcADU("tcp", 4660, 1, 3, 2)}
RTUFramesForC10(z) == {ReqADU("rtu", 0, r) : r \in SmallReqs} \cup {RespADU("rtu", 0, r) : r \in SmallResps}
                   \cup {ExcADU("rtu", 0, 1, 3, 2)}

C10Inputs(fr) ==
    LET frames == IF fr = "tcp" THEN TCPFramesForC10(0) ELSE RTUFramesForC10(0) IN
    UNION {{<<SubSeq(f, 1, n), SubSeq(f, n + 1, Len(f))>> : n \in 0..Len(f)} : f \in frames}
    \cup (IF fr = "tcp" THEN UNION {{<<Relen(SubSeq(f, 1, n)), SubSeq(f, n + 1, Len(f))>> : n \in 6..Len(f)} : f \in frames} ELSE {})
    \* byte count / quantity positions overwritten
    \cup UNION {{<<SetByte(f, i, v), <<>>>> : i \in (IF fr = "tcp" THEN {9, 11, 12, 13, 15, 16, 17} ELSE {3, 5, 6, 7, 9, 10, 11}) \cap 1..Len(f),
                                              v \in {0, 1, 2, 125, 126, 255}} : f \in frames}
    \cup {<<f \o <<0>>, <<>>>> : f \in frames}
    \cup {<<f \o <<1, 2, 3>>, <<>>>> : f \in frames}

C10Cases(z) ==
    {PA(e, in[1], in[2]) : e \in TCPEntries, in \in C10Inputs("tcp")}
    \cup {PA(e, in[1], in[2]) : e \in RTUEntries, in \in C10Inputs("rtu")}
    \* cross framing: RTU shaped bytes into TCP entry points and vice versa (prefixes only)
    \cup (IF Thorough THEN {PA(e, in[1], in[2]) : e \in TCPEntries, in \in C10Inputs("rtu")}
                         \cup {PA(e, in[1], in[2]) : e \in RTUEntries, in \in C10Inputs("tcp")} ELSE {})
    \* all byte strings of length 0..1, and 2 with boundary bytes
    \cup {PA(e, s, <<>>) : e \in TCPEntries \cup RTUEntries,
            s \in {<<>>} \cup {<<a>> : a \in {0, 1, 3, 17, 128, 131, 255}}
                 \cup {<<a, b>> : a \in {0, 1, 255}, b \in {0, 1, 2, 3, 5, 15, 16, 17, 23, 129, 255}}}
C10Self(k) == TRUE

----------------------------------------------------------------------------
CaseSet(z) ==
    CASE Set = "c01" -> C01Cases(0)
      [] Set = "c02" -> C02Cases(0)
      [] Set = "c03" -> C03Cases(0)
      [] Set = "c09" -> C09Cases(0)
      [] Set = "c10" -> C10Cases(0)
      [] Set = "c11" -> C11Cases(0) \cup C11Extra(0)
      [] Set = "c18" -> C18Cases(0)

SelfOK(k) ==
    CASE Set = "c01" -> C01Self(k)
      [] Set = "c02" -> C02Self(k)
      [] Set = "c03" -> C03Self(k)
      [] Set = "c09" -> C09Self(k)
      [] Set = "c10" -> C10Self(k)
      [] Set = "c11" -> C11Self(k)
      [] Set = "c18" -> C18Self(k)

Init == c \in CaseSet(0)
Next == UNCHANGED c
SelfConsistent == SelfOK(c)
Emit == PrintT(<<"CASE", ToJson(c)>>)
=============================================================================
