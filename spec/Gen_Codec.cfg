INIT Init
NEXT Next
INVARIANT SelfConsistent
INVARIANT Emit
CHECK_DEADLOCK FALSE
