------------------------------ MODULE Gen_Stream ------------------------------
(***************************************************************************)
(* Case generation for the server's stream reassembly (C15) and reply      *)
(* well-formedness (C16).                                                  *)
(*  c15: sequences of 1..3 legal request frames of the supported functions *)
(*       x cut sets of the concatenated stream (all cut sets of one short  *)
(*       frame; bounded-size cut sets for longer streams)                  *)
(*  c16: single frames of every class (legal x 10 functions, unsupported   *)
(*       codes, out-of-limit, truncated body with consistent length field, *)
(*       inconsistent byte count) x handler behaviours                     *)
(***************************************************************************)
EXTENDS ServerStream, TLC, Json, FiniteSetsExt, SequencesExt
CONSTANTS Set, Tier
Thorough == Tier = "thorough"
VARIABLE c

R(fc, unit, addr, qty, data, waddr, wqty) == Req(fc, unit, addr, qty, data, waddr, wqty)
ReqMenu == [
    f1  |-> R(1, 17, 100, 19, <<>>, 0, 0),    f2  |-> R(2, 1, 0, 8, <<>>, 0, 0),
    f3  |-> R(3, 1, 10, 2, <<>>, 0, 0),       f4  |-> R(4, 255, 65535, 1, <<>>, 0, 0),
    f5  |-> R(5, 1, 3, CoilOn, <<>>, 0, 0),   f6  |-> R(6, 9, 4, 0, <<18, 52>>, 0, 0),
    f15 |-> R(15, 1, 20, 10, <<85, 1>>, 0, 0), f16 |-> R(16, 1, 30, 2, <<1, 2, 3, 4>>, 0, 0),
    f17 |-> R(17, 3, 0, 0, <<>>, 0, 0),       f23 |-> R(23, 1, 40, 2, <<9, 8>>, 50, 1)]
Frame(name, tid) == TCPADU(tid, ReqMenu[name].unit, ReqPDU(ReqMenu[name]))
Names == DOMAIN ReqMenu

Lens(L, cuts) ==
    LET cs == SetToSortSeq(cuts \cup {L}, <) IN [i \in 1..Len(cs) |-> IF i = 1 THEN cs[1] ELSE cs[i] - cs[i - 1]]
RECURSIVE Cat(_, _)
Cat(fs, i) == IF i > Len(fs) THEN <<>> ELSE fs[i] \o Cat(fs, i + 1)
CutSetsUpTo(L, k) == UNION {kSubset(j, 1..(L - 1)) : j \in 0..k}

Stream(frames, cuts, handler, e2e) ==
    [op |-> "stream", frames |-> frames, segs |-> Lens(Len(Cat(frames, 1)), cuts), handler |-> handler, e2e |-> e2e]

OneFrame(z) ==
    UNION {{Stream(<<Frame(n, 258)>>, cuts, "device", FALSE) :
              cuts \in (IF n \in {"f3", "f17"} \/ (Thorough /\ Len(Frame(n, 258)) <= 13) THEN SUBSET (1..(Len(Frame(n, 258)) - 1))
                        ELSE CutSetsUpTo(Len(Frame(n, 258)), 2))} : n \in Names}
Pairs == IF Thorough THEN {<<"f3", "f16">>, <<"f17", "f3">>, <<"f5", "f1">>, <<"f23", "f17">>, <<"f3", "f3">>, <<"f15", "f6">>, <<"f2", "f4">>}
         ELSE {<<"f3", "f16">>, <<"f17", "f3">>, <<"f5", "f1">>, <<"f3", "f3">>}
TwoFrames(z) ==
    UNION {{Stream(<<Frame(p[1], 1), Frame(p[2], 2)>>, cuts, "device", FALSE) :
              cuts \in CutSetsUpTo(Len(Frame(p[1], 1)) + Len(Frame(p[2], 2)), IF Thorough THEN 3 ELSE 2)} : p \in Pairs}
Triples == IF Thorough THEN {<<"f3", "f5", "f16">>, <<"f17", "f3", "f17">>, <<"f1", "f2", "f4">>} ELSE {<<"f3", "f5", "f16">>}
ThreeFrames(z) ==
    UNION {{Stream(<<Frame(t[1], 1), Frame(t[2], 2), Frame(t[3], 3)>>, cuts, "device", FALSE) :
              cuts \in CutSetsUpTo(Len(Frame(t[1], 1)) + Len(Frame(t[2], 2)) + Len(Frame(t[3], 3)), 2)} : t \in Triples}
\* the same streams end-to-end through server.Server (a thin sample: these cost real time)
E2E(z) ==
    {Stream(<<Frame(p[1], 1), Frame(p[2], 2)>>, cuts, "device", TRUE) : p \in {<<"f3", "f16">>, <<"f5", "f1">>, <<"f3", "f3">>},
        cuts \in {{}, {12}, {5}, {5, 12}, {12, 20}, {1, 2, 3}, {13}, {11, 13}}}
    \cup {Stream(<<Frame(n, 7)>>, cuts, "device", TRUE) : n \in Names \ {"f17"}, cuts \in {{}, {1}, {7}, {8}, {9}, {3, 9}}}

\* maximal frames (259 bytes) next to other requests, and many short requests sent early: the buffer then holds
\* more than one ADU's worth of bytes (segments stay within the server's 300 byte read buffer)
RampS(n) == [i \in 1..n |-> (i * 29 + 7) % 256]
Big16 == TCPADU(21, 1, ReqPDU(R(16, 1, 30, 123, RampS(246), 0, 0)))
Big15 == TCPADU(22, 1, ReqPDU(R(15, 1, 20, 1968, RampS(246), 0, 0)))
Big23 == TCPADU(23, 1, ReqPDU(R(23, 1, 40, 2, RampS(242), 50, 121)))
BigStreams == {<<Big16, Frame("f3", 2)>>, <<Frame("f3", 1), Big16>>, <<Big15, Frame("f5", 2)>>, <<Big23, Frame("f3", 2)>>,
               <<Frame("f5", 1), Big23, Frame("f3", 3)>>}
BigCuts(L) == ({{}} \cup {{a} : a \in {1, 8, 12, 20, 100, 250, 258, 259, 260, 261, 267, 270}}
               \cup {{100, 259}, {12, 271}, {250, 262}, {259, 265}}) \cap SUBSET (1..(L - 1))
Many(n) == [i \in 1..n |-> Frame("f3", 100 + i)]
Big(z) ==
    UNION {{Stream(fs, cuts, "device", FALSE) : cuts \in {x \in BigCuts(Len(Cat(fs, 1))) :
                \A i \in 1..Len(Lens(Len(Cat(fs, 1)), x)) : Lens(Len(Cat(fs, 1)), x)[i] <= 300}} : fs \in BigStreams}
    \cup {Stream(Many(n), cuts, "device", FALSE) : n \in {21, 22, 25}, cuts \in {{}, {12}, {150}, {240}, {100, 200}}}
    \cup {Stream(Many(25), cuts, "device", FALSE) : cuts \in {{252}, {264}, {276}}}
    \cup {Stream(fs, cuts, "device", TRUE) : fs \in {<<Big16, Frame("f3", 2)>>, Many(25)}, cuts \in {{}, {259}, {250}}}

Hdr(tid, len, unit) == U16(tid) \o <<0, 0>> \o U16(len) \o <<unit>>
\* a refused request (unsupported function / out-of-range quantity) followed by other requests: what is left of the
\* refused one must not disturb the handling of the next
Unsup(tid) == Hdr(tid, 6, 9) \o <<7, 0, 1, 0, 1>>
Unsup2(tid) == Hdr(tid, 4, 3) \o <<100, 5, 6>>
TooMany(tid) == TCPADU(tid, 1, ReqPDU(R(3, 1, 0, 126, <<>>, 0, 0)))
RefusedStreams == {<<Unsup(1), Frame("f3", 2)>>, <<Frame("f3", 1), Unsup(2), Frame("f16", 3)>>, <<Unsup2(1), Unsup(2), Frame("f5", 3)>>,
                   <<TooMany(1), Frame("f3", 2)>>, <<Frame("f5", 1), TooMany(2), Unsup(3), Frame("f3", 4)>>}
Refused(z) ==
    UNION {{Stream(fs, cuts, "device", FALSE) : cuts \in CutSetsUpTo(Len(Cat(fs, 1)), 2)} : fs \in RefusedStreams}
    \cup {Stream(fs, cuts, "device", TRUE) : fs \in RefusedStreams, cuts \in {{}, {12}, {5}, {13, 20}}}

\* a handler that takes longer (120 ms) than the server's write timeout (60 ms): the time the handler took is not
\* the writer's - the reply is still owed, once, and the next request on the connection as well
SlowHandler(z) ==
    {[op |-> "stream", frames |-> fs, segs |-> <<Len(Cat(fs, 1))>>, handler |-> "device", e2e |-> TRUE, slow |-> TRUE] :
        fs \in {<<Frame("f3", 4660)>>, <<Frame("f3", 4660), Frame("f6", 4661)>>}}
\* the server's transport hands over data TOGETHER with the read-deadline error (io.Reader allows n > 0 with an error)
DlRead(z) ==
    {[op |-> "stream", frames |-> fs, segs |-> Lens(Len(Cat(fs, 1)), cuts), handler |-> "device", e2e |-> TRUE, dlread |-> TRUE] :
        fs \in {<<Frame("f3", 4660)>>, <<Frame("f3", 4660), Frame("f6", 4661)>>}, cuts \in {{}, {5}, {9}}}
C15Cases(z) == DlRead(0) \cup OneFrame(0) \cup TwoFrames(0) \cup ThreeFrames(0) \cup E2E(0) \cup Big(0) \cup Refused(0) \cup SlowHandler(0)

----------------------------------------------------------------------------
Whole(f, handler, e2e) == [op |-> "stream", frames |-> <<f>>, segs |-> <<Len(f)>>, handler |-> handler, e2e |-> e2e]
\* errRelayed: the handler returns a typed parse error that was filled in for another frame (tid, unit, function of its own)
Handlers == {"device", "errTyped", "errGeneric", "errRelayed", "panic", "nil"}

LegalFrames == {Frame(n, 4660) : n \in Names}
UnsupportedFrames == {Hdr(4660, 6, 9) \o <<fc, 0, 1, 0, 1>> : fc \in (IF Thorough THEN (1..127) \ SupportedFC ELSE {7, 8, 11, 20, 22, 24, 33, 37, 43, 48, 55, 64, 65, 100, 127})}
OutOfLimitFrames ==
    {TCPADU(4660, 1, ReqPDU(R(fc, 1, 0, q, <<>>, 0, 0))) : fc \in {1, 2}, q \in {0, 2001, 65535}}
    \cup {TCPADU(4660, 1, ReqPDU(R(fc, 1, 0, q, <<>>, 0, 0))) : fc \in {3, 4}, q \in {0, 126, 65535}}
    \cup {TCPADU(4660, 1, ReqPDU(R(5, 1, 0, v, <<>>, 0, 0))) : v \in {1, 255, 65281}}
    \cup {TCPADU(4660, 1, ReqPDU(R(15, 1, 0, q, <<1, 2>>, 0, 0))) : q \in {0, 1969}}
    \cup {TCPADU(4660, 1, ReqPDU(R(16, 1, 0, q, <<1, 2, 3, 4>>, 0, 0))) : q \in {0, 124}}
    \cup {TCPADU(4660, 1, ReqPDU(R(23, 1, 0, rq, <<1, 2>>, 0, wq))) : rq \in {0, 126}, wq \in {1}}
    \cup {TCPADU(4660, 1, ReqPDU(R(23, 1, 0, 1, <<1, 2>>, 0, wq))) : wq \in {0, 122}}
\* body shorter than the function's fixed part, MBAP length field consistent with the frame
TruncatedFrames ==
    UNION {{LET f == Frame(n, 4660) IN Hdr(4660, k - 6, f[7]) \o SubSeq(f, 8, k) : k \in 9..(Len(Frame(n, 4660)) - 1)} : n \in Names \ {"f17"}}
\* byte count field disagreeing with the data that follows (length field consistent)
BadCountFrames ==
    {TCPADU(4660, 1, <<16, 0, 1, 0, 2, bc, 1, 2, 3, 4>>) : bc \in {0, 3, 5, 255}}
    \cup {TCPADU(4660, 1, <<15, 0, 1, 0, 9, bc, 1, 2>>) : bc \in {0, 1, 3, 255}}
    \cup {TCPADU(4660, 1, <<23, 0, 1, 0, 1, 0, 2, 0, 1, bc, 1, 2>>) : bc \in {0, 1, 3, 255}}

\* a frame as long as the 16-bit length field allows (65 541 bytes), delivered in reads of 300 bytes: whatever is sent
\* back, and whenever, must be addressed to the request - and nothing may be sent before the frame is complete
Giant(lenField) == Hdr(4660, lenField, 9) \o <<3, 0, 10, 0, 2>> \o [i \in 1..(lenField - 6) |-> 0]
GiantCase(lenField) ==
    LET f == Giant(lenField) L == Len(f) IN
    [op |-> "stream", frames |-> <<f>>, segs |-> Lens(L, {300 * k : k \in 1..((L - 1) \div 300)}), handler |-> "device", e2e |-> FALSE]

C16Cases(z) ==
    {Whole(f, h, FALSE) : f \in LegalFrames, h \in Handlers}
    \cup {Whole(f, "device", FALSE) : f \in UnsupportedFrames \cup OutOfLimitFrames \cup TruncatedFrames \cup BadCountFrames}
    \cup {GiantCase(n) : n \in {65535, 65531}}
    \cup {Whole(f, h, TRUE) : f \in {Frame("f3", 4660), Frame("f16", 4660)}, h \in Handlers}
    \* the same with the server's default error callback (OnErrorFunc left unset)
    \cup {[op |-> "stream", frames |-> <<f>>, segs |-> <<Len(f)>>, handler |-> h, e2e |-> TRUE, defaults |-> TRUE] :
            f \in {Frame("f3", 4660), Frame("f6", 4660)}, h \in Handlers}
    \cup {Whole(f, "device", TRUE) : f \in {Hdr(4660, 6, 9) \o <<7, 0, 1, 0, 1>>, TCPADU(4660, 1, ReqPDU(R(3, 1, 0, 126, <<>>, 0, 0))),
                                            Hdr(4660, 3, 1) \o <<3, 0>>, TCPADU(4660, 1, <<16, 0, 1, 0, 2, 255, 1, 2, 3, 4>>)}}

CaseSet(z) == CASE Set = "c15" -> C15Cases(0) [] Set = "c16" -> C16Cases(0)
Init == c \in CaseSet(0)
Next == UNCHANGED c
\* the generator's own classification of what it builds
SelfConsistent ==
    /\ Set = "c15" => \A i \in DOMAIN c.frames : Answerable(c.frames[i])
    /\ Set = "c16" => LET f == c.frames[1] IN
          /\ (f \in LegalFrames => FrameClass(f) = "legal")
          /\ (f \in UnsupportedFrames => FrameClass(f) = "unsupported")
          /\ (f \in OutOfLimitFrames => FrameClass(f) = "outoflimit")
          /\ (f \in TruncatedFrames \cup BadCountFrames => FrameClass(f) = "malformed")
Emit == PrintT(<<"CASE", ToJson(c)>>)
=============================================================================
