SPECIFICATION Spec
CONSTANTS SharedBuf = TRUE Emit = FALSE Handler = "device"
INVARIANT OwnRepliesOnly
CHECK_DEADLOCK FALSE
