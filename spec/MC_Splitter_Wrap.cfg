SPECIFICATION Spec
CONSTANTS L = 4 AddrMax = 15 N = 2 Wrap = TRUE M = 16 Gs = {1}
INVARIANT DoneOK
CHECK_DEADLOCK FALSE
