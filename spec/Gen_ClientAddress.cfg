INIT Init
NEXT Next
CONSTANTS MaxPieces = 3 Emit = TRUE
INVARIANT NoSchemeIsTCP Recompose EmitCase
CHECK_DEADLOCK FALSE
