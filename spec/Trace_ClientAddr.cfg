SPECIFICATION TSpec
CONSTANTS MaxPieces = 0 Emit = FALSE
POSTCONDITION AllConsumed
CHECK_DEADLOCK FALSE
