SPECIFICATION Spec
CONSTANTS OnePerRead = TRUE Early = FALSE Hdr = 2
INVARIANT AnswersExactlyCompleted
CHECK_DEADLOCK FALSE
