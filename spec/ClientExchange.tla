--------------------------- MODULE ClientExchange ---------------------------
(***************************************************************************)
(* One request call of a client (network TCP framing, network RTU framing, *)
(* serial RTU), seen at its boundary: the bytes it writes, the reads it    *)
(* performs on the transport, the hook invocations, and what it returns    *)
(* (C07 C08 C12 C19).  The environment (the transport script) chooses how  *)
(* the reply R is cut into reads, where empty timed-out reads occur and    *)
(* which fault happens.  This module states which RETURN is allowed in     *)
(* which situation; Trace_Client.tla applies it to recorded executions and *)
(* MC_ClientLoop.tla checks a reference read loop against it.              *)
(*                                                                         *)
(* D = the bytes the client has read so far (concatenation of all reads).  *)
(***************************************************************************)
EXTENDS ModbusPDU, CodecAPI

FramingOf(client) == IF client \in {"tcp", "tcpgen", "gendef"} THEN "tcp" ELSE "rtu"   \* "gendef": NewClient with a zero-valued configuration (TCP is the documented default);   \* "tcpgen": the configurable client with the TCP functions

\* R is the normal reply a conforming device sends to request r
ProperNormal(fr, r, R) ==
    LET cl == ClassifyResp(fr, R) IN
    /\ cl.kind = "normal"
    /\ cl.r.fc = r.fc
    /\ (r.fc # 17 => Len(R) = RespLenFor(fr, r))
ProperException(fr, R) == ClassifyResp(fr, R).kind = "exception"

IsPrefixOf(p, s) == Len(p) <= Len(s) /\ p = SubSeq(s, 1, Len(p))

(* Rules that hold for EVERY exchange, whatever the transport did. *)
Universal(fr, r, R, D, ret) ==
    IF ret.kind \in {"panic", "hang"} THEN "call-" \o ret.kind
    ELSE IF ret.kind = "ok" /\ ClassifyResp(fr, D).kind # "normal" THEN
         (IF fr = "rtu" /\ ~CRCConsistent(D) THEN "success-from-frame-with-inconsistent-crc" ELSE "success-from-malformed-or-truncated-frame")
    ELSE IF ret.kind = "ok" /\ ret.reenc # D THEN "returned-response-differs-from-bytes-read"
    ELSE IF ret.kind = "ok" /\ ProperNormal(fr, r, R) /\ D # R /\ IsPrefixOf(D, R) THEN "success-from-truncated-reply"
    ELSE IF ret.kind = "exception" /\ ClassifyResp(fr, D).kind # "exception" THEN
         (IF fr = "rtu" /\ ~CRCConsistent(D) THEN "exception-from-frame-with-inconsistent-crc" ELSE "exception-from-bytes-that-are-no-exception-frame")
    ELSE IF ret.kind = "exception" /\
            LET cl == ClassifyResp(fr, D) IN <<ret.excUnit, ret.excFc, ret.excCode>> # <<cl.unit, cl.fc, cl.code>>
         THEN "exception-fields-differ-from-frame"
    ELSE "ok"

(* What a benign or faulty script demands of the return.  fault:            *)
(*   none      chunks / empty reads, then a quiet line; R fully scripted     *)
(*   stall     only a proper prefix of R is ever delivered, then quiet       *)
(*   eof       stream closed after a proper prefix                           *)
(*   ioerr     a read fails with an I/O error                                *)
(*   oversize  more bytes than an ADU can hold, no earlier complete reply    *)
(*   writeerr  the write is rejected        cancel  the caller cancels       *)
(*   writestall the peer never takes the request: the write ends when the    *)
(*             write deadline the client has set expires                     *)
(*   notconnected / nilreq                                                   *)
(*   connectfailed(nil)  the only Connect failed: the dial function returned *)
(*             an error together with a connection / a typed nil connection  *)
Demand(fault, fr, r, R, D, ret, touched) ==
    CASE fault = "none" ->
            IF ProperNormal(fr, r, R) THEN
                 (IF ret.kind = "ok" /\ ret.reenc = R THEN "ok"
                  ELSE IF ret.timeoutMsg = 1 THEN "timeout-on-complete-correct-reply"
                  ELSE "complete-correct-reply-not-returned")
            ELSE IF ProperException(fr, R) THEN
                 (IF ret.kind = "exception" THEN "ok" ELSE "exception-reply-not-returned-as-typed-exception")
            ELSE "ok"
      [] fault = "stall" ->
            IF ret.kind = "clienterr" THEN "ok"
            ELSE IF ret.kind = "ok" THEN "success-on-stalled-transport"
            ELSE "stall-not-reported-as-client-error"
      [] fault = "eof" ->
            IF ret.kind = "ok" THEN "success-on-closed-stream" ELSE "ok"
      [] fault = "ioerr" ->
            IF ret.kind = "clienterr" /\ ret.wrapsCause = 1 THEN "ok" ELSE "io-error-not-reported-as-client-error-wrapping-cause"
      [] fault = "oversize" ->
            IF ret.kind = "clienterr" /\ ret.tooLong = 1 THEN "ok" ELSE "oversize-reply-not-reported-as-packet-too-long"
      [] fault = "writeerr" ->
            IF ret.kind = "clienterr" /\ ret.wrapsCause = 1 THEN "ok" ELSE "write-error-not-reported-as-client-error-wrapping-cause"
      [] fault = "writestall" ->
            IF ret.kind = "clienterr" THEN "ok"
            ELSE IF ret.kind = "ok" THEN "success-although-the-request-was-never-taken-by-the-peer"
            ELSE "write-timeout-not-reported-as-client-error"
      [] fault \in {"precancel", "cancelonwrite"} ->      \* cancelled before anything was read, the whole reply is available
            IF ret.kind = "ctxerr" THEN "ok"
            ELSE IF ret.kind = "ok" THEN "success-reported-for-a-call-cancelled-before-anything-was-read"
            ELSE "cancellation-not-reported-as-context-error"
      [] fault \in {"cancel", "ctxdeadline"} ->   \* (ctxdeadline: the caller's deadline, shorter than the read timeout, passes while the peer stalls)
            IF ret.kind = "ctxerr" THEN "ok" ELSE "cancellation-not-reported-as-context-error"
      [] fault \in {"notconnected", "nilreq", "connectfailed", "connectfailednil"} ->
            IF ret.kind = "ok" THEN "success-without-connection-or-request"
            ELSE IF touched THEN "transport-touched-without-connection-or-request"
            ELSE "ok"
      [] OTHER -> "harness-unknown-fault-kind"
=============================================================================
