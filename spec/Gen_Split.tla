------------------------------ MODULE Gen_Split ------------------------------
(***************************************************************************)
(* Case generation for C06 (batching) and C05 (end-to-end extraction):     *)
(* field lists drawn from a menu built around the real limits (125         *)
(* registers / 2000 coils), the top of the 16-bit address space, two       *)
(* servers x two unit ids, duplicates, same-address fields of different    *)
(* width, one invalid definition per validation rule, x 8 split targets.   *)
(***************************************************************************)
EXTENDS Splitter, TLC, Json, FiniteSetsExt, SequencesExt
CONSTANTS Set, Tier
Thorough == Tier = "thorough"
VARIABLE c

F(srv, unit, addr, type, bit, high, len, order, name) ==
    [server |-> srv, unit |-> unit, addr |-> addr, type |-> type, bit |-> bit, high |-> high, len |-> len,
     order |-> order, name |-> name]

RegMenu == <<
    F("a:1", 1, 0, T_Uint16, 0, 0, 0, 0, "r1"),
    F("a:1", 1, 124, T_Int16, 0, 0, 0, 0, "r2"),
    F("a:1", 1, 125, T_Uint16, 0, 0, 0, 0, "r3"),
    F("a:1", 1, 123, T_Uint32, 0, 0, 0, BE_LOW, "r4"),
    F("a:1", 1, 122, T_Float64, 0, 0, 0, LE_LOW, "r5"),
    F("a:1", 1, 1, T_String, 0, 0, 7, 0, "r6"),
    F("a:1", 1, 0, T_Bit, 11, 0, 0, 0, "r7"),
    F("a:1", 1, 0, T_Int64, 0, 0, 0, LE_HIGH, "r8"),
    F("a:1", 1, 65535, T_Uint16, 0, 0, 0, 0, "r9"),
    F("a:1", 1, 65534, T_Float32, 0, 0, 0, BE_HIGH, "r10"),
    F("b:2", 1, 1000, T_Byte, 0, 1, 0, 0, "r11"),
    F("a:1", 2, 1001, T_Int8, 0, 0, 0, 0, "r12"),
    F("a:1", 1, 3, T_String, 0, 0, 246, LE_LOW, "r13"),
    F("b:2", 1, 1120, T_Uint64, 0, 0, 0, 0, "r14"),
    F("a:1", 1, 65411, T_Int32, 0, 0, 0, LE_LOW, "r15"),
    F("a:1", 1, 2, T_Uint8, 0, 1, 0, 0, "r16"),
    F("a:1", 1, 12, T_Bit, 7, 0, 0, 0, "r17"),
    F("a:1", 1, 12, T_Bit, 8, 0, 0, 0, "r18") >>
CoilMenu == <<
    F("a:1", 1, 0, T_Coil, 0, 0, 0, 0, "c1"),
    F("a:1", 1, 1999, T_Coil, 0, 0, 0, 0, "c2"),
    F("a:1", 1, 2000, T_Coil, 0, 0, 0, 0, "c3"),
    F("a:1", 1, 2001, T_Coil, 0, 0, 0, 0, "c4"),
    F("a:1", 1, 65535, T_Coil, 0, 0, 0, 0, "c5"),
    F("b:2", 1, 7, T_Coil, 0, 0, 0, 0, "c6"),
    F("a:1", 2, 8, T_Coil, 0, 0, 0, 0, "c7"),
    F("a:1", 1, 63536, T_Coil, 0, 0, 0, 0, "c8") >>
Special == {
    <<F("a:1", 1, 0, T_Uint16, 0, 0, 0, 0, "d"), F("a:1", 1, 0, T_Uint16, 0, 0, 0, 0, "d")>>,        \* exact duplicate
    <<F("a:1", 1, 5, T_String, 0, 0, 250, 0, "s250")>>,                                              \* 125 registers alone
    <<F("a:1", 1, 5, T_String, 0, 0, 251, 0, "s251")>>,                                              \* 126 registers: cannot fit
    <<F("a:1", 1, 5, T_String, 0, 0, 255, 0, "s255"), F("a:1", 1, 1, T_Uint16, 0, 0, 0, 0, "x")>>,
    <<F("", 1, 0, T_Uint16, 0, 0, 0, 0, "nosrv"), F("a:1", 1, 1, T_Uint16, 0, 0, 0, 0, "x")>>,        \* invalid: no server
    <<F("a:1", 1, 0, 0, 0, 0, 0, 0, "notype"), F("a:1", 1, 1, T_Uint16, 0, 0, 0, 0, "x")>>,           \* invalid: type 0
    <<F("a:1", 1, 0, 15, 0, 0, 0, 0, "badtype"), F("a:1", 1, 1, T_Uint16, 0, 0, 0, 0, "x")>>,         \* invalid: type 15
    <<F("a:1", 1, 0, T_Bit, 16, 0, 0, 0, "badbit"), F("a:1", 1, 1, T_Uint16, 0, 0, 0, 0, "x")>>,      \* invalid: bit 16
    <<F("a:1", 1, 0, T_String, 0, 0, 0, 0, "nolen"), F("a:1", 1, 1, T_Uint16, 0, 0, 0, 0, "x")>>,     \* invalid: string length 0
    <<F("a:1", 1, 0, T_Coil, 16, 0, 0, 0, "badcoil"), F("a:1", 1, 1, T_Uint16, 0, 0, 0, 0, "x")>>,    \* invalid field of the other kind
    <<F("a:1", 1, 0, T_Uint16, 0, 0, 0, 0, "lo"), F("a:1", 1, 65535, T_Uint16, 0, 0, 0, 0, "hi")>>,   \* both ends of the address space
    <<F("a:1", 1, 65535, T_Coil, 0, 0, 0, 0, "chi"), F("a:1", 1, 0, T_Coil, 0, 0, 0, 0, "clo")>>,
    <<F("a:1", 1, 10, T_Uint16, 0, 0, 0, 0, "m1"), F("a:1", 1, 10, T_Coil, 0, 0, 0, 0, "m2"),
      F("a:1", 1, 11, T_Uint32, 0, 0, 0, 0, "m3"), F("a:1", 1, 12, T_Coil, 0, 0, 0, 0, "m4")>>,       \* mixed kinds
    \* different targets whose (server address, unit id) pairs read alike when written one after the other
    <<F("plc:50", 21, 10, T_Uint16, 0, 0, 0, 0, "t1"), F("plc:502", 1, 11, T_Uint16, 0, 0, 0, 0, "t2"),
      F("plc:50", 21, 10, T_Coil, 0, 0, 0, 0, "t3"), F("plc:502", 1, 11, T_Coil, 0, 0, 0, 0, "t4")>>,
    <<F("a", 11, 10, T_Uint32, 0, 0, 0, 0, "u1"), F("a1", 1, 10, T_Uint16, 0, 0, 0, 0, "u2"), F("a_1", 1, 12, T_Uint16, 0, 0, 0, 0, "u3"),
      F("a", 1, 13, T_Uint16, 0, 0, 0, 0, "u4"), F("a", 11, 5, T_Coil, 0, 0, 0, 0, "u5"), F("a1", 1, 6, T_Coil, 0, 0, 0, 0, "u6")>>,
    <<F("h:1_2", 3, 1, T_Uint16, 0, 0, 0, 0, "v1"), F("h:1", 23, 2, T_Uint16, 0, 0, 0, 0, "v2"), F("h:12", 3, 3, T_Uint16, 0, 0, 0, 0, "v3"),
      F("h:1", 2, 4, T_Uint16, 0, 0, 0, 0, "v4")>>,
    \* server addresses that differ in the network prefix only: different targets (C06 speaks of the field's OWN server address)
    <<F("udp://10.0.0.7:502", 1, 10, T_Uint16, 0, 0, 0, 0, "n1"), F("10.0.0.7:502", 1, 11, T_Uint16, 0, 0, 0, 0, "n2"),
      F("tcp://10.0.0.7:502", 1, 12, T_Uint16, 0, 0, 0, 0, "n3"), F("10.0.0.7:502", 1, 5, T_Coil, 0, 0, 0, 0, "n4"),
      F("tcp://10.0.0.7:502", 1, 6, T_Coil, 0, 0, 0, 0, "n5")>>,
    \* one group spread over more than half of the address space, a neighbour of the first field added last (an order of
    \* the slots that is computed from address DIFFERENCES goes round in a circle here)
    <<F("a:1", 1, 0, T_Uint16, 0, 0, 0, 0, "w1"), F("a:1", 1, 30000, T_Uint16, 0, 0, 0, 0, "w2"), F("a:1", 1, 60000, T_Uint16, 0, 0, 0, 0, "w3"),
      F("a:1", 1, 1, T_Uint16, 0, 0, 0, 0, "w4")>>,
    <<F("a:1", 1, 40000, T_Uint16, 0, 0, 0, 0, "x1"), F("a:1", 1, 5, T_Uint16, 0, 0, 0, 0, "x2"), F("a:1", 1, 65535, T_Uint16, 0, 0, 0, 0, "x3"),
      F("a:1", 1, 32773, T_Uint16, 0, 0, 0, 0, "x4"), F("a:1", 1, 6, T_Uint16, 0, 0, 0, 0, "x5"), F("a:1", 1, 40001, T_Uint16, 0, 0, 0, 0, "x6")>>,
    <<F("a:1", 1, 100, T_Coil, 0, 0, 0, 0, "y1"), F("a:1", 1, 33000, T_Coil, 0, 0, 0, 0, "y2"), F("a:1", 1, 65000, T_Coil, 0, 0, 0, 0, "y3"),
      F("a:1", 1, 150, T_Coil, 0, 0, 0, 0, "y4")>>,
    \* the ends of the bit range, on registers whose bits differ from their neighbours'
    <<F("a:1", 1, 12, T_Bit, 15, 0, 0, 0, "b15"), F("a:1", 1, 12, T_Bit, 0, 0, 0, 0, "b0"), F("a:1", 1, 13, T_Bit, 14, 0, 0, 0, "b14"),
      F("a:1", 1, 13, T_Bit, 1, 0, 0, 0, "b1")>>,
    <<>> }

MaxK == IF Thorough THEN 5 ELSE 3
SeqOfSet(menu, S) == [i \in 1..Cardinality(S) |-> menu[SetToSortSeq(S, <)[i]]]
Lists(menu) == {SeqOfSet(menu, S) : S \in UNION {kSubset(k, DOMAIN menu) : k \in 1..MaxK}}
\* reversed order variants (batching must not depend on input order)
Rev(s) == [i \in 1..Len(s) |-> s[Len(s) + 1 - i]]

Targets(coil) == {[fc |-> fc, framing |-> fr] : fc \in (IF coil THEN {1, 2} ELSE {3, 4}), fr \in {"tcp", "rtu"}}
AllTargets == Targets(TRUE) \cup Targets(FALSE)

SplitCase(t, fs, e2e, mem) == [op |-> "split", target |-> t, fields |-> fs, e2e |-> e2e, mem |-> mem]

C06Cases(z) ==
    {SplitCase(t, fs, FALSE, 0) : t \in Targets(FALSE), fs \in Lists(RegMenu)}
    \cup {SplitCase(t, Rev(fs), FALSE, 0) : t \in {[fc |-> 3, framing |-> "tcp"]}, fs \in {x \in Lists(RegMenu) : Len(x) = 3}}
    \cup {SplitCase(t, fs, FALSE, 0) : t \in Targets(TRUE), fs \in Lists(CoilMenu)}
    \cup {SplitCase(t, fs, FALSE, 0) : t \in AllTargets, fs \in Special}

C05Cases(z) ==
    {SplitCase(t, fs, TRUE, m) : t \in Targets(FALSE), m \in {0, 1},
        fs \in {x \in Lists(RegMenu) : Len(x) <= (IF Thorough THEN 4 ELSE 2) \/ (Len(x) = 3 /\ x[1].name \in {"r1", "r6", "r13"})}}
    \cup {SplitCase(t, fs, TRUE, 1) : t \in Targets(FALSE), fs \in {s \in Special : Len(s) > 0 /\ \A i \in DOMAIN s : s[i].type # 0}}

\* histories: several Read* calls on ONE builder holding fields of both kinds (each call must still see every field)
Mixed == {
    <<CoilMenu[1], RegMenu[1], CoilMenu[2], RegMenu[2], RegMenu[6]>>,
    <<RegMenu[1], CoilMenu[1], RegMenu[4], CoilMenu[7], RegMenu[12], CoilMenu[6]>>,
    <<CoilMenu[6], CoilMenu[1], RegMenu[11], RegMenu[14]>> }
T(fc, fr) == [fc |-> fc, framing |-> fr]
Chains == { <<T(3, "tcp"), T(4, "tcp"), T(1, "tcp"), T(3, "rtu")>>, <<T(1, "tcp"), T(3, "tcp"), T(2, "rtu"), T(4, "rtu")>>,
            <<T(4, "rtu"), T(4, "rtu"), T(3, "tcp")>>, <<T(2, "tcp"), T(2, "tcp"), T(1, "rtu"), T(3, "tcp")>> }
HistCases(e2e) ==
    {[op |-> "split", target |-> ch[1], again |-> Tail(ch), fields |-> fs, e2e |-> e2e, mem |-> 1] : ch \in Chains, fs \in Mixed}
    \cup {[op |-> "split", target |-> ch[1], again |-> Tail(ch), fields |-> fs, e2e |-> e2e, mem |-> 0] :
            ch \in Chains, fs \in {x \in Lists(RegMenu) : Len(x) = 3 /\ x[1].name \in {"r1", "r2"}}}

CaseSet(z) == CASE Set = "c06" -> C06Cases(0) \cup HistCases(FALSE) [] Set = "c05" -> C05Cases(0) \cup HistCases(TRUE)

Init == c \in CaseSet(0)
Next == UNCHANGED c
SelfConsistent == TRUE
Emit == PrintT(<<"CASE", ToJson(c)>>)
=============================================================================
