SPECIFICATION Spec
CONSTANTS K = 2 CloseGuardOwn = FALSE CancelWakesAccept = FALSE ShutdownClaims = FALSE TrackChecksDown = FALSE UnmarkAfterWrite = TRUE StartupSafe = TRUE ListenerMayFail = TRUE FailureDistinct = TRUE TimeoutIsError = TRUE RetryWaits = TRUE Emit = TRUE
INVARIANT EmitDone
CHECK_DEADLOCK FALSE
