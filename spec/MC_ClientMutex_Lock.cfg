SPECIFICATION Spec
CONSTANTS N = 3 M = 2 UseLock = TRUE WithAdmin = TRUE Emit = FALSE
INVARIANT OneExchangeAtATime
INVARIANT OwnReply
INVARIANT SameConnection
VIEW ViewNoHist
CHECK_DEADLOCK FALSE
