---------------------------- MODULE ClientAddress ----------------------------
(***************************************************************************)
(* Beyond the listed properties (check E06): how the network client reads  *)
(* the address given to Connect (README: "Addresses without scheme are     *)
(* considered as TCP addresses.  For UDP unicast use udp://host:port").     *)
(* An address is modelled as a sequence of pieces; the text is their       *)
(* concatenation, the piece "ADDR" stands for host:port of an endpoint     *)
(* that listens on TCP and on UDP.  The scheme separator is "://", the     *)
(* FIRST occurrence counts, what precedes it names the network, what       *)
(* follows is handed to the dialer unchanged.  Whoever is dialed, the      *)
(* request bytes must arrive THERE: Outcome is which endpoint received the *)
(* request, or "error" when Connect must fail.                             *)
(* TLC enumerates every address of up to MaxPieces pieces (Emit); the      *)
(* monitor (Trace_ClientAddr) demands Outcome for each.                    *)
(***************************************************************************)
EXTENDS Integers, Sequences, TLC, Json
CONSTANTS MaxPieces, Emit

Pieces == {"tcp", "udp", "tcp4", "bogus", "://", "ADDR", ""}
Sep == "://"

RECURSIVE Join(_)
Join(s) == IF s = <<>> THEN "" ELSE Head(s) \o Join(Tail(s))

FirstSep(s) == IF \E i \in DOMAIN s : s[i] = Sep THEN CHOOSE i \in DOMAIN s : s[i] = Sep /\ \A j \in 1..(i - 1) : s[j] # Sep ELSE 0

Split(s) ==
    LET i == FirstSep(s) IN
    IF i = 0 THEN [net |-> "tcp", addr |-> Join(s)]
    ELSE [net |-> Join(SubSeq(s, 1, i - 1)), addr |-> Join(SubSeq(s, i + 1, Len(s)))]

\* the networks the endpoint of the experiment can be reached over, and the only text that names it
Outcome(s) ==
    LET x == Split(s) IN
    IF x.addr # "ADDR" THEN "error"
    ELSE IF x.net \in {"tcp", "tcp4"} THEN "tcp"
    ELSE IF x.net = "udp" THEN "udp"
    ELSE "error"

VARIABLE a
Init == a \in UNION {[1..n -> Pieces] : n \in 1..MaxPieces}
Next == UNCHANGED a
\* sanity of the model itself: an address without separator is a TCP address; a scheme never leaks into the dialed text
NoSchemeIsTCP == (FirstSep(a) = 0) => Split(a).net = "tcp" /\ Split(a).addr = Join(a)
Recompose == (FirstSep(a) # 0) => Join(a) = Split(a).net \o Sep \o Split(a).addr
EmitCase == Emit => PrintT(<<"CASE", ToJson([op |-> "caddr", pieces |-> a])>>)
=============================================================================
