SPECIFICATION Spec
CONSTANTS N = 2 M = 1 UseLock = TRUE WithAdmin = TRUE Emit = TRUE
INVARIANT EmitDone
CHECK_DEADLOCK FALSE
