SPECIFICATION Spec
CONSTANTS N = 3 M = 1 UseLock = TRUE WithAdmin = FALSE Emit = TRUE
INVARIANT EmitDone
CHECK_DEADLOCK FALSE
