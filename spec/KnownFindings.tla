---------------------------- MODULE KnownFindings ----------------------------
(***************************************************************************)
(* One deviation operator per finding recorded in /verif/KNOWN_FINDINGS.txt.*)
(* Dev_<id>(e) states BOTH the specific input class and the exact wrong     *)
(* behaviour the pinned code shows on it.  A trace event the specification  *)
(* rejects is labelled known:<id> only if Dev_<id> holds for it; any other  *)
(* rejected event of the same property is a violation.  An operator whose   *)
(* id is not listed as `known:' in KNOWN_FINDINGS.txt suppresses nothing    *)
(* (the orchestrator treats its label as a violation).                      *)
(***************************************************************************)
EXTENDS ModbusPDU

\* C11-F1: coil lookup indexes payload bytes from the END of the payload
\* (isBitSet: nThByte = len-1-i/8); pinned by the repository's tests.
Dev_C11_F1(e, i) ==
    /\ Len(e.payload) >= 2
    /\ e.outcome = "ok"
    /\ e.value = BitOf(e.payload[Len(e.payload) - (i \div 8)], i % 8)

\* C09-F1: FC1/FC2 request parsers refuse legal quantities 126..2000 with
\* exception code 03 (they apply the register limit 125 to coils); pinned by tests.
Dev_C09_F1(fc, qty, e) ==
    /\ fc \in {1, 2}
    /\ qty \in 126..2000
    /\ e.outcome = "err"
    /\ e.errType \in {"ErrorParseTCP", "ErrorParseRTU"}
    /\ Len(e.errPkt) >= 3
    /\ e.errPkt[IF e.errType = "ErrorParseTCP" THEN 9 ELSE 3] = 3

\* C18-F1: the stream classifier says "not Modbus" for the library's own FC17
\* request (MBAP length field 2: it demands a PDU of at least 3 bytes); pinned by tests.
Dev_C18_F1(e) ==
    /\ Len(e.frame) >= 8
    /\ MBAPProto(e.frame) = 0
    /\ MBAPLen(e.frame) = 2
    /\ e.frame[8] # 0
    /\ e.kind = "not"
=============================================================================
