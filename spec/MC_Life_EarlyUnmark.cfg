SPECIFICATION Spec
CONSTANTS K = 2 CloseGuardOwn = TRUE CancelWakesAccept = TRUE ShutdownClaims = TRUE TrackChecksDown = TRUE UnmarkAfterWrite = FALSE StartupSafe = TRUE ListenerMayFail = FALSE FailureDistinct = TRUE TimeoutIsError = TRUE RetryWaits = TRUE Emit = FALSE
INVARIANT NoCrash
INVARIANT TrueCount
INVARIANT RejectedClosed
INVARIANT CloseAtMostOnce
INVARIANT CloseExactlyOnce
INVARIANT AfterShutdown
INVARIANT NoStragglerAfterShutdown
PROPERTY ShutdownThenServeReturns
PROPERTY CancelThenServeReturns
VIEW ViewNoHist
CHECK_DEADLOCK FALSE
