SPECIFICATION Spec
CONSTANTS K = 2 CloseGuardOwn = TRUE CancelWakesAccept = TRUE ShutdownClaims = TRUE TrackChecksDown = TRUE UnmarkAfterWrite = TRUE StartupSafe = TRUE ListenerMayFail = TRUE FailureDistinct = FALSE TimeoutIsError = TRUE RetryWaits = TRUE Emit = FALSE
INVARIANT NoCrash
INVARIANT TrueCount
INVARIANT RejectedClosed
INVARIANT CloseAtMostOnce
INVARIANT CloseExactlyOnce
INVARIANT AfterShutdown
INVARIANT NoStragglerAfterShutdown
INVARIANT ClosedOnlyWhenAsked
PROPERTY FailureThenServeReturns
PROPERTY ShutdownThenServeReturned
PROPERTY CancelThenServeReturns
VIEW ViewNoHist
CHECK_DEADLOCK FALSE
