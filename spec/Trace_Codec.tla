----------------------------- MODULE Trace_Codec -----------------------------
(***************************************************************************)
(* Trace validation for the codec family (C01 C02 C03 C09 C10 C11 C18).    *)
(* Every line of the recorded trace is one call of the real library with   *)
(* its inputs and what came back.  Events are independent, so the monitor  *)
(* has no state beyond the position l.  Next is total: an event the        *)
(* specification does not allow is reported as a VERDICT line and the      *)
(* monitor goes on, so the rest of the trace is still checked.             *)
(***************************************************************************)
EXTENDS ModbusPDU, CodecAPI, KnownFindings, TLC, Json, IOUtils

Trace == ndJsonDeserialize(IOEnv.TRACE_FILE)

VARIABLE l

----------------------------------------------------------------------------
(* C01 *)
J_newreq(e) ==
    IF e.panic THEN "panic"
    ELSE IF ~e.accepted THEN "ok"                      \* refusing is always allowed by C01
    ELSE IF e.fc = 6 /\ Len(e.data) # 2 THEN "ok"      \* out of scope (DESIGN 2.6)
    ELSE IF e.fc \in {16, 23} /\ Len(e.data) % 2 # 0 THEN "accepted-odd-register-data"
    ELSE LET r == ReqOfArgs(e) IN
         IF ~LegalReq(r) THEN "accepted-illegal-request"
         ELSE IF e.bytes # ReqADU(e.framing, e.tid, r) THEN "bytes-differ-from-specified-ADU"
         ELSE IF Len(e.bytes) > MaxADU(e.framing) THEN "adu-too-long"
         ELSE IF e.bytes2 # e.bytes THEN "second-encoding-of-the-same-request-differs"
         ELSE IF e.bytes3 # e.bytes THEN "encoding-changed-when-the-caller-reused-its-argument-slices"
         ELSE IF e.bytesProto # <<>> /\ e.bytesProto # e.bytes THEN "protocol-identifier-on-the-wire-is-not-zero"
         ELSE IF e.prevNow # e.prevThen THEN "encoding-of-an-earlier-request-changed-after-a-later-one-was-built"
         ELSE IF e.bytesScr # <<>> /\ e.bytesScr # e.bytes THEN "encoding-depends-on-what-the-caller-did-with-the-data-of-an-earlier-request"
         ELSE "ok"

----------------------------------------------------------------------------
(* C07 (static part): the response length a request reports - the length the clients' read loops wait *)
(* for - equals the length of the specified normal reply.  The known wrong constants (KNOWN_FINDINGS   *)
(* C07-F1..F5, pinned by the repository's tests) are accepted only with their exact formulas.          *)
J_explen(e) ==
    LET r == ReqOfArgs(e) IN
    IF r.fc = 17 THEN (IF e.explen = (IF e.framing = "tcp" THEN 8 ELSE 2) THEN "known:C07-F4" ELSE "expected-response-length-of-fc17-changed")
    ELSE LET n == RespLenFor(e.framing, r) IN
         IF e.explen = n THEN "ok"
         ELSE IF e.framing = "rtu" /\ r.fc \in {1, 2, 3, 4} /\ e.explen = n - 1 THEN "known:C07-F1"
         ELSE IF e.framing = "tcp" /\ r.fc = 5 /\ e.explen = 11 THEN "known:C07-F2"
         ELSE IF e.framing = "rtu" /\ r.fc \in {5, 6} /\ e.explen = 6 THEN "known:C07-F3"
         ELSE IF r.fc = 23 /\ e.explen = (IF e.framing = "tcp" THEN 17 + 2 * r.qty ELSE 6 + 2 * r.qty) THEN "known:C07-F5"
         ELSE "expected-response-length-differs-from-the-specified-reply-length"

----------------------------------------------------------------------------
(* C02 *)
IsDispResp(entry) == entry \in {"ParseTCPResponse", "ParseRTUResponse", "ParseRTUResponseWithCRC"}

J_parseresp(e) ==
    IF e.outcome = "panic" THEN "panic"
    ELSE IF e.outcome = "noentry" THEN "harness-unknown-entry"
    ELSE IF e.outcome = "err" /\ ~e.nilOnErr THEN "non-nil-value-with-error"
    ELSE LET cl == ClassifyResp(e.framing, e.frame) IN
         CASE cl.kind = "normal" ->
                IF e.entry \notin RespEntries(e.framing, cl.r.fc) THEN "ok"
                ELSE IF e.outcome # "ok" THEN "well-formed-response-rejected"
                ELSE IF ~e.typeOK THEN "parsed-value-of-unknown-type"
                ELSE IF e.fields # cl.r THEN "decoded-fields-differ-from-frame"
                ELSE IF e.framing = "tcp" /\ e.tid # MBAPTid(e.frame) THEN "transaction-id-differs"
                ELSE IF e.blen # -1 /\ e.blen # Len(cl.r.data) THEN "byte-length-field-differs"
                ELSE IF e.framing = "rtu" /\ e.reenc # <<>> /\ ~CRCConsistent(e.reenc) THEN "emitted-rtu-frame-does-not-end-with-the-crc-of-its-bytes"
                ELSE IF e.reenc # e.frame THEN "reencoding-differs-from-frame"
                ELSE "ok"
           [] cl.kind = "oversize" ->
                \* representable by the format but longer than any legal ADU: accepting it is not demanded, but a
                \* parser that accepts it must still yield the frame's content and re-encode it byte for byte
                IF e.entry \notin RespEntries(e.framing, cl.r.fc) \/ e.outcome # "ok" THEN "ok"
                ELSE IF e.fields # cl.r THEN "decoded-fields-differ-from-frame"
                ELSE IF e.framing = "rtu" /\ e.reenc # <<>> /\ ~CRCConsistent(e.reenc) THEN "emitted-rtu-frame-does-not-end-with-the-crc-of-its-bytes"
                ELSE IF e.reenc # e.frame THEN "reencoding-differs-from-frame"
                ELSE "ok"
           [] cl.kind = "exception" ->
                IF ~IsDispResp(e.entry) THEN "ok"
                ELSE IF e.outcome # "err" THEN "exception-frame-returned-as-response"
                ELSE IF e.excIs = 0 THEN "exception-frame-error-not-typed"
                ELSE IF <<e.excUnit, e.excFc, e.excCode>> # <<cl.unit, cl.fc, cl.code>> THEN "exception-fields-differ"
                ELSE IF e.framing = "rtu" /\ e.errType = "ErrorResponseRTU" /\ ~CRCConsistent(e.errPkt) THEN "emitted-rtu-frame-does-not-end-with-the-crc-of-its-bytes"
                ELSE IF e.prevNow # e.prevThen THEN "exception-error-of-an-earlier-frame-changed-after-a-later-parse"
                ELSE "ok"
           [] cl.kind = "mismatch" ->
                IF e.outcome = "ok" THEN "byte-count-mismatch-accepted" ELSE "ok"
           [] OTHER -> "ok"

----------------------------------------------------------------------------
(* C09 *)
DecodeByFraming(fr, f) ==
    CASE fr = "tcp" -> DecodeTCPReq(f)
      [] fr = "rtu" -> DecodeRTUReq(f)
      [] OTHER      -> IF Len(f) < 2 THEN BadReq ELSE DecodeReqPDU(f[1], SubSeq(f, 2, Len(f)))   \* "rtunocrc"

FrOf(fr) == IF fr = "tcp" THEN "tcp" ELSE "rtu"

J_parsereq(e) ==
    IF e.outcome = "panic" THEN "panic"
    ELSE IF e.outcome = "noentry" THEN "harness-unknown-entry"
    ELSE IF e.outcome = "err" /\ ~e.nilOnErr THEN "non-nil-value-with-error"
    \* C03, emitter clause: whatever request the parser accepted, what it emits again ends with the CRC of its bytes
    ELSE IF e.outcome = "ok" /\ e.framing = "rtu" /\ e.reenc # <<>> /\ ~CRCConsistent(e.reenc) THEN "emitted-rtu-frame-does-not-end-with-the-crc-of-its-bytes"
    ELSE LET d == DecodeByFraming(e.framing, e.frame) IN
         IF ~d.ok THEN "ok"
         ELSE IF e.entry \notin ReqEntries(FrOf(e.framing), d.r.fc) THEN "ok"
         ELSE IF e.framing = "rtunocrc" /\ e.entry \in {"ParseRTURequest", "ParseRTURequestWithCRC"} THEN "ok"
         ELSE IF LegalReq(d.r) THEN
              IF e.outcome # "ok" THEN
                   (IF Dev_C09_F1(d.r.fc, d.r.qty, e) THEN "known:C09-F1" ELSE "legal-request-refused")
              ELSE IF ~e.typeOK THEN "parsed-value-of-unknown-type"
              ELSE IF e.fields # d.r THEN "decoded-request-differs-from-original"
              ELSE IF e.framing = "tcp" /\ e.tid # d.tid THEN "transaction-id-differs"
              ELSE IF e.reenc # (IF e.framing = "tcp" THEN e.frame
                                 ELSE IF e.framing = "rtu" THEN e.frame ELSE WithCRC(e.frame))
                   THEN "reencoding-differs-from-frame"
              ELSE IF e.reencAfter # e.reenc THEN "decoded-request-changed-when-the-caller-reused-its-input-buffer"
              ELSE "ok"
         ELSE IF OutOfLimitReq(d.r) THEN
              (IF e.outcome = "ok" THEN "out-of-limit-request-decoded" ELSE "ok")
         ELSE "ok"

\* Beyond the listed properties (check E02, only with VERIF_EXTRA=1): a request whose quantity / count / value is
\* outside the specification's limits is refused with the TYPED parse error of the parser's own framing, and that
\* error encodes to the exception reply (code 03) addressed to the request - for the TCP AND the RTU parsers.
Extra == IOEnv.VERIF_EXTRA = "1"
J_parsereq_extra(e) ==
    IF e.outcome # "err" THEN "ok"
    ELSE LET d == DecodeByFraming(e.framing, e.frame) IN
         IF ~d.ok \/ e.entry \notin ReqEntries(FrOf(e.framing), d.r.fc) \/ ~OutOfLimitReq(d.r) THEN "ok"
         ELSE IF e.framing = "rtunocrc" /\ e.entry \in {"ParseRTURequest", "ParseRTURequestWithCRC"} THEN "ok"
         ELSE IF e.framing = "tcp" THEN
              (IF e.errType # "ErrorParseTCP" THEN "extra:out-of-limit-request-refused-without-the-typed-tcp-parse-error"
               ELSE IF e.errPkt # ExcADU("tcp", d.tid, d.r.unit, d.r.fc, 3) THEN "extra:parse-error-does-not-encode-to-exception-03-addressed-to-the-request"
               ELSE "ok")
         ELSE (IF e.errType # "ErrorParseRTU" THEN "extra:out-of-limit-request-refused-without-the-typed-rtu-parse-error"
               ELSE IF e.errPkt # ExcADU("rtu", 0, d.r.unit, d.r.fc, 3) THEN "extra:parse-error-does-not-encode-to-exception-03-addressed-to-the-request"
               ELSE "ok")

\* range event: every value from..to of the 16-bit field at 0-based offset `off' was refused
SetField(f, off, q) == [f EXCEPT ![off + 1] = q \div 256, ![off + 2] = q % 256]
Refix(fr, f) == IF fr = "rtu" THEN WithCRC(SubSeq(f, 1, Len(f) - 2)) ELSE f
LegalQ(e, q) ==
    LET d == DecodeByFraming(e.framing, Refix(e.framing, SetField(e.frame, e.off, q)))
    IN d.ok /\ LegalReq(d.r)
\* all boundaries of the per-function legal sets (legal sets are unions of at most two intervals
\* whose endpoints are among these), so probing these inside [from, to] plus the two ends is exact
Boundaries(e) ==
    LET bc == Len(e.frame) IN
    {0, 1, 2, 120, 121, 122, 123, 124, 125, 126, 127, 1967, 1968, 1969, 1999, 2000, 2001, 65279, 65280, 65281, 65535}
    \cup {8 * k + j : k \in 0..bc, j \in {-8, -7, -1, 0, 1}} \cup {k : k \in 0..bc}
J_errrange(e) ==
    LET probes == ({e.from, e.to} \cup Boundaries(e)) \cap e.from..e.to
        legal == {q \in probes : LegalQ(e, q)}
    IN IF legal = {} THEN "ok"
       ELSE IF e.fc \in {1, 2} /\ e.off \in {4, 10} /\ legal \subseteq 126..2000 THEN "known:C09-F1"
       ELSE "legal-request-refused-in-range"

----------------------------------------------------------------------------
(* C10 *)
J_parseany(e) ==
    IF e.outcome = "panic" THEN "panic"
    ELSE IF e.outcome = "noentry" THEN "harness-unknown-entry"
    ELSE IF ~e.nilOnErr THEN "non-nil-value-with-error"
    ELSE IF e.nilOk THEN "neither-a-decoded-value-nor-an-error"
    ELSE IF e.capDep THEN "result-depends-on-spare-capacity"
    ELSE "ok"

----------------------------------------------------------------------------
(* C18 *)
WellFormedExcADU(p) ==
    Len(p) = 9 /\ MBAPProto(p) = 0 /\ MBAPLen(p) = 3 /\ p[8] >= 128

\* "rejected with an error that encodes to a valid exception reply": a reply to THIS request - its transaction id,
\* unit id and function code with the high bit set
DispatcherAgrees(e) ==
    \/ e.disp \in {"ok", "na"}
    \/ /\ e.disp = "errtyped" /\ WellFormedExcADU(e.dispPkt)
       \* (for the functions the dispatcher knows; with allowUnSupportedFunctionCodes the caller has asked to be handed
       \* function codes the dispatcher cannot address - its "unknown function" error carries no addressing)
       /\ (e.frame[8] \in SupportedFC =>
              MBAPTid(e.dispPkt) = MBAPTid(e.frame) /\ e.dispPkt[7] = e.frame[7] /\ e.dispPkt[8] = e.frame[8] + 128)

J_classify(e) ==
    LET cl == Classify(e.frame) IN
    IF e.kind = "panic" \/ e.disp = "panic" THEN "panic"
    ELSE IF e.prevNow # e.prevThen THEN "exception-handed-out-for-an-earlier-frame-changed-after-a-later-classification"
    ELSE IF cl.kind = "short" THEN (IF e.kind = "short" THEN "ok" ELSE "short-prefix-not-reported-too-short")
    ELSE IF e.kind = "short" THEN "too-short-reported-for-8-or-more-bytes"
    ELSE IF e.tag = "prefix" THEN
         \* a prefix (>= 8 bytes) of a frame the library can encode
         IF cl.kind # "ok" THEN "harness-prefix-of-non-encodable-frame"
         ELSE IF e.kind # "ok" THEN (IF Dev_C18_F1(e) THEN "known:C18-F1" ELSE "encodable-frame-not-accepted")
         ELSE IF e.n # cl.n THEN "expected-length-differs-from-frame-length"
         ELSE IF ~DispatcherAgrees(e) THEN "accepted-but-dispatcher-fails-without-exception-reply"
         ELSE "ok"
    \* (this clause first: an unsupported function code that the classifier ACCEPTS must not be judged as an accepted frame)
    \* (function bytes 128..255 have the exception bit set already: what "the matching exception" is for them is not
    \* defined by the statement - the library answers with the bit cleared - so only their classification is judged)
    ELSE IF cl.kind = "unsupported" /\ ~e.allow /\ e.frame[8] \in 1..255 THEN
         IF e.kind # "unsupported" THEN (IF Dev_C18_F1(e) THEN "known:C18-F1" ELSE "unsupported-function-not-classified-as-such")
         ELSE IF e.frame[8] <= 127 /\ e.excBytes # cl.exc THEN "illegal-function-exception-does-not-match-request"
         ELSE IF e.n # cl.n THEN "expected-length-not-6-plus-length-field"
         ELSE "ok"
    ELSE IF e.kind = "ok" THEN
         IF e.n # 6 + MBAPLen(e.frame) THEN "expected-length-not-6-plus-length-field"
         ELSE IF ~DispatcherAgrees(e) THEN "accepted-but-dispatcher-fails-without-exception-reply"
         ELSE "ok"
    ELSE "ok"

----------------------------------------------------------------------------
(* C03 *)
J_crc(e) == IF e.out = CRC(e.msg) THEN "ok" ELSE "checksum-differs-from-modbus-crc"

J_crcsweep(e) ==
    IF e.distinct2 # 65536 THEN "two-byte-messages-do-not-reach-every-crc-state"
    ELSE IF e.init # CRCInit THEN "crc-of-empty-message-not-0xFFFF"
    ELSE IF e.pairs # 16777216 THEN "harness-sweep-incomplete"
    ELSE IF e.mismatches # 0 THEN "crc-step-differs-from-table-step"
    ELSE "ok"

J_trailer(e) ==
    IF e.outcome = "panic" THEN "panic"
    ELSE IF (e.errCRC = 1) # (~CRCConsistent(e.frame)) THEN
         (IF e.errCRC = 1 THEN "consistent-crc-refused" ELSE "inconsistent-crc-not-refused-as-crc-error")
    ELSE "ok"

\* the exception encoders for ANY unit, function byte and code: five bytes ending with the CRC of the first three
J_emitexc(e) ==
    IF e.outcome = "panic" THEN "panic"
    ELSE IF Len(e.resp) # 5 \/ ~CRCConsistent(e.resp) \/ Len(e.parse) # 5 \/ ~CRCConsistent(e.parse)
         THEN "emitted-rtu-frame-does-not-end-with-the-crc-of-its-bytes"
    ELSE IF e.resp[1] # e.unit \/ e.resp[3] # e.code THEN "exception-frame-does-not-carry-the-given-unit-and-code"
    ELSE "ok"

J_trailer_all(e) ==
    LET n == Len(e.frame)
        good == CRC(SubSeq(e.frame, 1, n - 2))
    IN IF e.panics # 0 THEN "panic"
       ELSE IF e.notCRCErr # <<good>> THEN "set-of-accepted-trailers-is-not-exactly-the-crc"
       ELSE IF e.crcErr # 65535 THEN "not-all-wrong-trailers-refused-as-crc-error"
       ELSE "ok"

----------------------------------------------------------------------------
(* C11 *)
J_coil(e) ==
    LET i == e.addr - e.start IN
    IF e.outcome = "panic" THEN "panic"
    ELSE IF e.lenDep THEN "coil-lookup-depends-on-the-redundant-byte-length-field-not-on-the-payload"
    ELSE IF i < 0 \/ i >= 8 * Len(e.payload) THEN
         (IF e.outcome = "err" THEN "ok" ELSE "out-of-range-coil-address-not-an-error")
    ELSE IF e.outcome # "ok" THEN "in-range-coil-address-refused"
    ELSE IF e.value # CoilAt(e.payload, i) THEN
         (IF Dev_C11_F1(e, i) THEN "known:C11-F1" ELSE "coil-value-differs-from-modbus-bit-layout")
    ELSE "ok"

\* builder-style extraction of coil fields: one result per field, in order
J_coilextract(e) ==
    IF e.outcome = "panic" THEN "panic"
    ELSE IF Len(e.results) # Len(e.addrs) THEN "coil-extraction-result-count-differs"
    ELSE LET verdictAt(i) == J_coil([payload |-> e.payload, start |-> e.start, addr |-> e.addrs[i],
                                      outcome |-> e.results[i].outcome, value |-> e.results[i].value, lenDep |-> FALSE])
             bad == {i \in DOMAIN e.addrs : verdictAt(i) # "ok" \/ e.results[i].addr # e.addrs[i]}
         IN IF bad = {} THEN "ok" ELSE verdictAt(CHOOSE i \in bad : TRUE)

\* write-multiple-coils, then read back through a device that stores what the request carries
\* the first n coils read with the payload's bytes taken in reverse order (C11-F1); the payload is bound as a VALUE
\* (a set-constructor variable) so that it is computed once, not once per coil
RevRead(data, n) == CHOOSE r \in {[i \in 1..n |-> BitOf(dd[Len(dd) - ((i - 1) \div 8)], (i - 1) % 8)] : dd \in {data}} : TRUE
J_coilroundtrip(e) ==
    IF e.outcome = "panic" THEN "panic"
    ELSE IF ~e.accepted THEN "ok"
    ELSE LET n == Len(e.coils)
             d == IF e.framing = "tcp" THEN DecodeTCPReq(e.bytes) ELSE DecodeRTUReq(e.bytes)
         IN IF ~d.ok \/ d.r.fc # 15 \/ d.r.qty # n THEN "write-coils-request-does-not-decode"
            ELSE IF UnpackCoils(d.r.data, n) # e.coils THEN "write-coils-request-carries-a-different-pattern"
            ELSE IF e.got = e.coils THEN "ok"
            ELSE IF Len(d.r.data) >= 2 /\ e.got = RevRead(d.r.data, n)
                 THEN "known:C11-F1"
            ELSE "coil-pattern-not-recovered-by-read-back"

\* the same relation through the library's client and a conforming device on a connection: pattern A written and
\* read back, then its complement; both responses are looked at after both rounds
J_coildevice(e) ==
    IF e.outcome = "panic" THEN "panic"
    ELSE IF ~e.ran THEN (IF e.err = "" THEN "ok" ELSE "write-read-back-through-a-conforming-device-failed")
    ELSE LET Rev(coils) == RevRead(PackCoils(coils), Len(coils))
             V(coils, got) == IF got = coils THEN "ok"
                              ELSE IF Len(coils) > 8 /\ got = Rev(coils) THEN "known:C11-F1"
                              ELSE "bad"
             va == V(e.coilsA, e.gotA) vb == V(e.coilsB, e.gotB)
         IN IF vb = "bad" THEN "coil-pattern-not-recovered-by-read-back-through-a-device"
            ELSE IF va = "bad" THEN "coils-of-an-earlier-response-changed-after-a-later-exchange"
            ELSE IF va # "ok" THEN va ELSE vb

----------------------------------------------------------------------------
Judge(e) ==
    CASE e.op = "newreq"            -> J_newreq(e)
      [] e.op = "newreq_rejected"   -> "ok"
      [] e.op = "explen"            -> J_explen(e)
      [] e.op = "parseresp"         -> J_parseresp(e)
      [] e.op = "parsereq"          -> LET v == J_parsereq(e) IN IF v = "ok" /\ Extra THEN J_parsereq_extra(e) ELSE v
      [] e.op = "parsereq_errrange" -> J_errrange(e)
      [] e.op = "parseany"          -> J_parseany(e)
      [] e.op = "fuzz_done"         -> "ok"
      [] e.op = "classify"          -> J_classify(e)
      [] e.op = "protosweep"        -> IF e.accepted = <<>> THEN "ok" ELSE "header-with-non-zero-protocol-identifier-not-refused-as-not-modbus"
      [] e.op = "crc"               -> J_crc(e)
      [] e.op = "crcsweep"          -> J_crcsweep(e)
      [] e.op = "trailer"           -> J_trailer(e)
      [] e.op = "trailer_all"       -> J_trailer_all(e)
      [] e.op = "coil"              -> J_coil(e)
      [] e.op = "coilextract"       -> J_coilextract(e)
      [] e.op = "emitexc"           -> J_emitexc(e)
      [] e.op = "coilroundtrip"     -> J_coilroundtrip(e)
      [] e.op = "coildevice"        -> J_coildevice(e)
      \* the driver's watchdog: the case was still running (no event for a minute, or the heap beyond 6 GiB)
      [] e.op = "runaway" -> "library-call-does-not-return"
      [] OTHER                      -> "unknown-event"

Init == l = 1
Next ==
    /\ l <= Len(Trace)
    /\ LET v == Judge(Trace[l]) IN IF v = "ok" THEN TRUE ELSE PrintT(<<"VERDICT", l, v>>)
    /\ l' = l + 1
Spec == Init /\ [][Next]_l

\* the whole file was consumed (a malformed trace cannot be "accepted" by TLC stopping early)
AllConsumed == TLCGet("stats").diameter - 1 = Len(Trace)
=============================================================================
