--------------------------- MODULE ServerLifecycle ---------------------------
(***************************************************************************)
(* Connection lifecycle of the TCP server (C17): the accept loop, one      *)
(* goroutine per connection, graceful Shutdown, cancellation of the serve  *)
(* context, and the clients.  One action per critical section of the code  *)
(* (the `verif' hook points of server.go are named in the comments).       *)
(*                                                                         *)
(* Design switches (constants).  With all of them TRUE this is the         *)
(* reference design on which the listed properties are model-checked; each *)
(* FALSE reproduces a structure the pinned code has (or had) and makes TLC *)
(* produce the schedule in which the property fails - those schedules are  *)
(* hypotheses that the conformance phase replays on the real code through  *)
(* the gated hooks:                                                        *)
(*   CloseGuardOwn     the close callback is guarded by ITSELF being set   *)
(*                     (FALSE: guarded by the accept callback being set)   *)
(*   CancelWakesAccept cancelling the context unblocks a pending Accept    *)
(*   ShutdownClaims    Shutdown and the connection goroutine decide who    *)
(*                     owns an idle connection with one atomic step        *)
(*                     (FALSE: test isBeingHandled, then close: a request  *)
(*                     can start in between)                               *)
(*   TrackChecksDown   a connection accepted concurrently with Shutdown is *)
(*                     not served (FALSE: it is tracked after Shutdown     *)
(*                     finished scanning and stays open)                   *)
(*   StartupSafe       Shutdown may come before the serve call has        *)
(*                     installed its listener: Shutdown then has nothing   *)
(*                     to close and the serve call returns "server closed" *)
(*                     at once (FALSE: Shutdown dereferences the missing   *)
(*                     listener)                                           *)
(*   UnmarkAfterWrite  a request counts as being handled until its reply   *)
(*                     has been written (FALSE: only until the handler     *)
(*                     returns - Shutdown can close the connection under   *)
(*                     the pending reply and still report success)         *)
(*   TimeoutIsError    a Shutdown whose context expires while requests are *)
(*                     still being handled reports that (FALSE: it reports *)
(*                     success - AfterShutdown fails)                      *)
(*   RetryWaits        a second Shutdown after one that gave up waits like *)
(*                     the first (FALSE: it returns success at once)       *)
(* Beyond the listed properties (check E05):                               *)
(*   ListenerMayFail   the environment may make the listener fail while    *)
(*                     the server is running (Accept returns an error that *)
(*                     nobody asked for)                                   *)
(*   FailureDistinct   the serve call then returns THAT error (FALSE: it   *)
(*                     reports "server closed" as if Shutdown had been     *)
(*                     called)                                             *)
(***************************************************************************)
EXTENDS Integers, Sequences, FiniteSets, TLC, Json
CONSTANTS K, CloseGuardOwn, CancelWakesAccept, ShutdownClaims, TrackChecksDown, UnmarkAfterWrite, StartupSafe, ListenerMayFail, FailureDistinct, TimeoutIsError, RetryWaits, Emit

Conns == 1..K

VARIABLES
    onAccept, onClose, rejects,   \* configuration: callbacks set, connections the accept callback refuses
    cli, sent, delivered,         \* client side: "none" | "dialed" | "up" | "hungup"; requests sent / replies received
    lis, queue,                   \* listener "open"/"closed"; dialed connections waiting in Accept
    acc, cur,                     \* accept loop pc and the connection in its hands
    sock,                         \* server side socket per connection: "none" | "open" | "closed"
    tracked, count, everTracked,
    cpc, ibh, started,            \* connection goroutine pc, isBeingHandled, handlers started
    mu,                           \* the server mutex: 0 free, -1 Shutdown, c = connection goroutine c, -2 accept loop
    sdPc, sdCur, sdTodo, sdAllIdle, sdRet, sdStartedAtRet, sdOpenAtRet,
    isShutdown, ctxDone, crash, serveRet, closeCb, acceptArg, liveAtCb,
    hist

vars == <<onAccept, onClose, rejects, cli, sent, delivered, lis, queue, acc, cur, sock, tracked, count, everTracked,
          cpc, ibh, started, mu, sdPc, sdCur, sdTodo, sdAllIdle, sdRet, sdStartedAtRet, sdOpenAtRet, isShutdown, ctxDone, crash, serveRet,
          closeCb, acceptArg, liveAtCb, hist>>

H(a, p) == hist' = Append(hist, [a |-> a, p |-> p])

Init ==
    /\ onAccept \in BOOLEAN /\ onClose \in BOOLEAN
    /\ rejects \in SUBSET Conns /\ (~onAccept => rejects = {})
    /\ cli = [c \in Conns |-> "none"] /\ sent = [c \in Conns |-> 0] /\ delivered = [c \in Conns |-> 0]
    /\ lis = "open" /\ queue = <<>>
    /\ acc = "starting" /\ cur = 0
    /\ sock = [c \in Conns |-> "none"]
    /\ tracked = {} /\ count = 0 /\ everTracked = {}
    /\ cpc = [c \in Conns |-> "none"] /\ ibh = [c \in Conns |-> FALSE] /\ started = [c \in Conns |-> 0]
    /\ mu = 0
    /\ sdPc = "idle" /\ sdCur = 0 /\ sdTodo = {} /\ sdAllIdle = TRUE /\ sdRet = "none" /\ sdStartedAtRet = {} /\ sdOpenAtRet = {}
    /\ isShutdown = FALSE /\ ctxDone = FALSE /\ crash = FALSE /\ serveRet = "none"
    /\ closeCb = [c \in Conns |-> 0] /\ acceptArg = [c \in Conns |-> 0] /\ liveAtCb = [c \in Conns |-> <<0, 0>>]
    /\ hist = <<>>

----------------------------------------------------------------------------
(* Clients (the harness) *)
Dial(c) ==
    /\ cli[c] = "none" /\ lis = "open"
    /\ cli' = [cli EXCEPT ![c] = "dialed"] /\ queue' = Append(queue, c)
    /\ H("dial", c)
    /\ UNCHANGED <<onAccept, onClose, rejects, sent, delivered, lis, acc, cur, sock, tracked, count, everTracked, cpc, ibh, started, mu,
                   sdPc, sdCur, sdTodo, sdAllIdle, sdRet, sdStartedAtRet, sdOpenAtRet, isShutdown, ctxDone, crash, serveRet, closeCb, acceptArg, liveAtCb>>

Send(c) ==
    /\ cli[c] = "up" /\ sent[c] = 0 /\ delivered[c] = 0 /\ started[c] = 0
    /\ sent' = [sent EXCEPT ![c] = 1]
    /\ H("send", c)
    /\ UNCHANGED <<onAccept, onClose, rejects, cli, delivered, lis, queue, acc, cur, sock, tracked, count, everTracked, cpc, ibh, started, mu,
                   sdPc, sdCur, sdTodo, sdAllIdle, sdRet, sdStartedAtRet, sdOpenAtRet, isShutdown, ctxDone, crash, serveRet, closeCb, acceptArg, liveAtCb>>

Hangup(c) ==
    /\ cli[c] = "up" /\ sent[c] = 0
    /\ cli' = [cli EXCEPT ![c] = "hungup"]
    /\ H("hangup", c)
    /\ UNCHANGED <<onAccept, onClose, rejects, sent, delivered, lis, queue, acc, cur, sock, tracked, count, everTracked, cpc, ibh, started, mu,
                   sdPc, sdCur, sdTodo, sdAllIdle, sdRet, sdStartedAtRet, sdOpenAtRet, isShutdown, ctxDone, crash, serveRet, closeCb, acceptArg, liveAtCb>>

Cancel ==
    /\ ~ctxDone /\ sdPc = "idle"
    /\ ctxDone' = TRUE
    /\ H("cancel", 0)
    /\ UNCHANGED <<onAccept, onClose, rejects, cli, sent, delivered, lis, queue, acc, cur, sock, tracked, count, everTracked, cpc, ibh, started, mu,
                   sdPc, sdCur, sdTodo, sdAllIdle, sdRet, sdStartedAtRet, sdOpenAtRet, isShutdown, crash, serveRet, closeCb, acceptArg, liveAtCb>>

----------------------------------------------------------------------------
(* Accept loop: serve() *)
UnchangedAccRest == UNCHANGED <<onAccept, onClose, rejects, sent, delivered, cpc, ibh, started, sdPc, sdCur, sdTodo, sdAllIdle, sdRet,
                                sdStartedAtRet, sdOpenAtRet, isShutdown, ctxDone, crash, closeCb>>

\* serve() installs its listener under the mutex (reference: unless Shutdown has already been called)    hook serve.start
ServeStart ==
    /\ acc = "starting" /\ mu = 0
    /\ IF StartupSafe /\ isShutdown
       THEN acc' = "returned" /\ serveRet' = "closed" /\ lis' = "closed"
       ELSE acc' = "accept" /\ UNCHANGED <<serveRet, lis>>
    /\ H("acc", 0)
    /\ UnchangedAccRest /\ UNCHANGED <<cli, queue, cur, sock, tracked, count, everTracked, mu, acceptArg, liveAtCb>>

\* l.Accept() returns a connection                                   hook accept.ret
AcceptConn ==
    /\ acc = "accept" /\ lis = "open" /\ queue # <<>>
    /\ cur' = Head(queue) /\ queue' = Tail(queue)
    /\ sock' = [sock EXCEPT ![Head(queue)] = "open"]
    /\ cli' = [cli EXCEPT ![Head(queue)] = "up"]
    /\ acc' = IF onAccept THEN "cb" ELSE "ctxchk"
    /\ H("acc", 0)
    /\ UnchangedAccRest /\ UNCHANGED <<lis, tracked, count, everTracked, mu, serveRet, acceptArg, liveAtCb>>

\* the environment: the listener fails although neither Shutdown nor cancellation asked for it (E05)
ListenerFail ==
    /\ ListenerMayFail /\ lis = "open" /\ acc \notin {"starting", "returned"} /\ ~isShutdown /\ ~ctxDone
    /\ lis' = "failed"
    /\ H("lfail", 0)
    /\ UnchangedAccRest /\ UNCHANGED <<cli, queue, acc, cur, sock, tracked, count, everTracked, mu, serveRet, acceptArg, liveAtCb>>

\* l.Accept() fails because the listener was closed (or failed)      hook serve.ret
AcceptFail ==
    /\ acc = "accept" /\ lis \in {"closed", "failed"}
    /\ acc' = "returned" /\ serveRet' = IF isShutdown \/ ctxDone \/ ~FailureDistinct THEN "closed" ELSE "other"
    /\ H("acc", 0)
    /\ UnchangedAccRest /\ UNCHANGED <<cli, lis, queue, cur, sock, tracked, count, everTracked, mu, acceptArg, liveAtCb>>

\* context cancelled while blocked in Accept (reference design: a watcher closes the listener)
CancelWake ==
    /\ CancelWakesAccept /\ ctxDone /\ lis = "open" /\ acc \notin {"starting", "returned"}
    /\ lis' = "closed"
    /\ UnchangedAccRest /\ UNCHANGED <<cli, queue, acc, cur, sock, tracked, count, everTracked, mu, serveRet, acceptArg, liveAtCb, hist>>

\* OnAcceptConnFunc(ctx, addr, count+1); a rejected connection is closed          hook accept.rejected
AcceptCb ==
    /\ acc = "cb"
    /\ acceptArg' = [acceptArg EXCEPT ![cur] = count + 1]
    /\ liveAtCb' = [liveAtCb EXCEPT ![cur] =
                       <<Cardinality({c \in tracked : sock[c] = "open"}), Cardinality({c \in Conns : cpc[c] \notin {"none", "exit3", "done"}})>>]
    /\ IF cur \in rejects
       THEN /\ sock' = [sock EXCEPT ![cur] = "closed"] /\ acc' = "accept" /\ cur' = 0
       ELSE /\ acc' = "ctxchk" /\ UNCHANGED <<sock, cur>>
    /\ H("acc", 0)
    /\ UnchangedAccRest /\ UNCHANGED <<cli, lis, queue, tracked, count, everTracked, mu, serveRet>>

\* select on ctx.Done()                                              hook ctx.check
CtxCheck ==
    /\ acc = "ctxchk"
    /\ IF ctxDone THEN acc' = "returned" /\ serveRet' = "closed" /\ lis' = "closed"   \* deferred l.Close()
                  ELSE acc' = "track" /\ UNCHANGED <<serveRet, lis>>
    /\ H("acc", 0)
    /\ UnchangedAccRest /\ UNCHANGED <<cli, queue, cur, sock, tracked, count, everTracked, mu, acceptArg, liveAtCb>>

\* trackConn(c, true) under the mutex, then the goroutine is started             hook track.add
TrackAdd ==
    /\ acc = "track" /\ mu = 0
    /\ IF TrackChecksDown /\ isShutdown
       THEN /\ sock' = [sock EXCEPT ![cur] = "closed"]
            /\ UNCHANGED <<tracked, count, everTracked, cpc>>
       ELSE /\ tracked' = tracked \cup {cur} /\ count' = count + 1 /\ everTracked' = everTracked \cup {cur}
            /\ cpc' = [cpc EXCEPT ![cur] = "loop"]
            /\ UNCHANGED sock
    /\ acc' = "accept" /\ cur' = 0
    /\ H("acc", 0)
    /\ UNCHANGED <<onAccept, onClose, rejects, cli, sent, delivered, lis, queue, ibh, started, mu, sdPc, sdCur, sdTodo, sdAllIdle, sdRet,
                   sdStartedAtRet, sdOpenAtRet, isShutdown, ctxDone, crash, serveRet, closeCb, acceptArg, liveAtCb>>

----------------------------------------------------------------------------
(* Connection goroutine: connection.handle() and the deferred cleanup *)
UnchangedConnRest == UNCHANGED <<onAccept, onClose, rejects, lis, queue, acc, cur, tracked, count, everTracked, sdPc, sdCur, sdTodo, sdAllIdle,
                                 sdRet, sdStartedAtRet, sdOpenAtRet, isShutdown, ctxDone, serveRet, acceptArg, liveAtCb>>

\* one iteration of the read loop that ends the connection: context done, socket closed, peer hung up
ConnLeave(c) ==
    /\ cpc[c] = "loop" /\ (ctxDone \/ sock[c] = "closed" \/ cli[c] = "hungup")
    /\ cpc' = [cpc EXCEPT ![c] = "exit1"]
    /\ H("conn", c)
    /\ UnchangedConnRest /\ UNCHANGED <<cli, sent, delivered, sock, ibh, started, mu, crash, closeCb>>

\* conn.Read returned n > 0                                          hook conn.read
ConnRead(c) ==
    /\ cpc[c] = "loop" /\ ~ctxDone /\ sock[c] = "open" /\ sent[c] = 1
    /\ sent' = [sent EXCEPT ![c] = 2]      \* consumed by the server
    /\ cpc' = [cpc EXCEPT ![c] = "read"]
    /\ H("conn", c)
    /\ UnchangedConnRest /\ UNCHANGED <<cli, delivered, sock, ibh, started, mu, crash, closeCb>>

\* isBeingHandled.Store(true)  (reference: one atomic step that fails if Shutdown claimed the connection)   hook conn.mark
ConnMark(c) ==
    /\ cpc[c] = "read"
    /\ IF ShutdownClaims /\ ibh[c]
       THEN cpc' = [cpc EXCEPT ![c] = "exit1"] /\ UNCHANGED ibh
       ELSE cpc' = [cpc EXCEPT ![c] = "marked"] /\ ibh' = [ibh EXCEPT ![c] = TRUE]
    /\ H("conn", c)
    /\ UnchangedConnRest /\ UNCHANGED <<cli, sent, delivered, sock, started, mu, crash, closeCb>>

\* the handler runs (ReceiveRead); the goroutine then enters the transport's Write      gate io.write
\* (UnmarkAfterWrite = FALSE: the request is declared finished as soon as the handler is back)
ConnHandle(c) ==
    /\ cpc[c] = "marked"
    /\ started' = [started EXCEPT ![c] = started[c] + 1]
    /\ cpc' = [cpc EXCEPT ![c] = "handled"]
    /\ ibh' = IF UnmarkAfterWrite THEN ibh ELSE [ibh EXCEPT ![c] = FALSE]
    /\ H("conn", c)
    /\ UnchangedConnRest /\ UNCHANGED <<cli, sent, delivered, sock, mu, crash, closeCb>>

\* conn.Write(reply)                                                  hook conn.wrote / conn.writefail
ConnWrite(c) ==
    /\ cpc[c] = "handled"
    /\ IF sock[c] = "open"
       THEN /\ delivered' = [delivered EXCEPT ![c] = delivered[c] + 1]
            /\ cpc' = [cpc EXCEPT ![c] = "wrote"]
       ELSE /\ cpc' = [cpc EXCEPT ![c] = "exit1"] /\ UNCHANGED delivered        \* write fails, isBeingHandled stays as it is
    /\ H("conn", c)
    /\ UnchangedConnRest /\ UNCHANGED <<cli, sent, sock, ibh, started, mu, crash, closeCb>>

\* isBeingHandled.Store(false)                                       hook conn.unmark
ConnUnmark(c) ==
    /\ cpc[c] = "wrote"
    /\ ibh' = [ibh EXCEPT ![c] = FALSE] /\ cpc' = [cpc EXCEPT ![c] = "loop"]
    /\ H("conn", c)
    /\ UnchangedConnRest /\ UNCHANGED <<cli, sent, delivered, sock, started, mu, crash, closeCb>>

\* deferred: conn.Close()                                            hook conn.closed
ConnClose(c) ==
    /\ cpc[c] = "exit1"
    /\ sock' = [sock EXCEPT ![c] = "closed"] /\ cpc' = [cpc EXCEPT ![c] = "exit2"]
    /\ H("conn", c)
    /\ UnchangedConnRest /\ UNCHANGED <<cli, sent, delivered, ibh, started, mu, crash, closeCb>>

\* deferred: trackConn(c, false) - needs the mutex                   hook track.remove
ConnUntrack(c) ==
    /\ cpc[c] = "exit2" /\ mu = 0
    /\ tracked' = tracked \ {c} /\ count' = count - 1
    /\ cpc' = [cpc EXCEPT ![c] = "exit3"]
    /\ H("conn", c)
    /\ UNCHANGED <<onAccept, onClose, rejects, cli, sent, delivered, lis, queue, acc, cur, sock, everTracked, ibh, started, mu, sdPc, sdCur, sdTodo,
                   sdAllIdle, sdRet, sdStartedAtRet, sdOpenAtRet, isShutdown, ctxDone, crash, serveRet, closeCb, acceptArg, liveAtCb>>

\* deferred: the close callback
ConnCloseCb(c) ==
    /\ cpc[c] = "exit3"
    /\ LET guard == IF CloseGuardOwn THEN onClose ELSE onAccept IN
       IF guard THEN (IF onClose THEN closeCb' = [closeCb EXCEPT ![c] = closeCb[c] + 1] /\ UNCHANGED crash
                                 ELSE crash' = TRUE /\ UNCHANGED closeCb)          \* call of an unset callback
                ELSE UNCHANGED <<closeCb, crash>>
    /\ cpc' = [cpc EXCEPT ![c] = "done"]
    /\ H("conn", c)
    /\ UnchangedConnRest /\ UNCHANGED <<cli, sent, delivered, sock, ibh, started, mu>>

----------------------------------------------------------------------------
(* Shutdown *)
UnchangedSdRest == UNCHANGED <<onAccept, onClose, rejects, cli, sent, delivered, queue, acc, cur, tracked, count, everTracked, cpc, started,
                               ctxDone, crash, serveRet, closeCb, acceptArg, liveAtCb>>

\* s.mu.Lock(); isShutdown.Store(true); listener.Close()             hooks sd.start, sd.lisclosed
SdStart ==
    /\ sdPc = "idle" /\ ~ctxDone /\ mu = 0 /\ (acc # "returned" \/ lis = "failed")   \* also after the serve call gave up on a failed listener
    /\ mu' = -1 /\ isShutdown' = TRUE
    \* before the serve call has installed the listener there is nothing Shutdown could close
    /\ IF acc = "starting" THEN (lis' = lis /\ crash' = (crash \/ ~StartupSafe)) ELSE (lis' = "closed" /\ crash' = crash)
    /\ sdPc' = "scan" /\ sdTodo' = tracked /\ sdAllIdle' = TRUE /\ sdCur' = 0
    /\ H("shutdown", 0)
    /\ UNCHANGED <<onAccept, onClose, rejects, cli, sent, delivered, queue, acc, cur, tracked, count, everTracked, cpc, started,
                   ctxDone, serveRet, closeCb, acceptArg, liveAtCb, sock, ibh, sdRet, sdStartedAtRet, sdOpenAtRet>>

\* isBeingHandled.Load() for one connection                          hook sd.check
SdCheck(c) ==
    /\ sdPc = "scan" /\ c \in sdTodo
    /\ IF ibh[c]
       THEN /\ sdAllIdle' = FALSE /\ sdTodo' = sdTodo \ {c} /\ UNCHANGED <<sdPc, sdCur, ibh>>
       ELSE /\ sdPc' = "close" /\ sdCur' = c /\ UNCHANGED <<sdAllIdle, sdTodo>>
            /\ ibh' = IF ShutdownClaims THEN [ibh EXCEPT ![c] = TRUE] ELSE ibh     \* reference: claim it in the same step
    /\ H("sd", 0)
    /\ UnchangedSdRest /\ UNCHANGED <<lis, sock, mu, sdRet, sdStartedAtRet, sdOpenAtRet, isShutdown>>

\* conn.Close(); delete from the map                                 hook sd.close
SdClose ==
    /\ sdPc = "close"
    /\ sock' = [sock EXCEPT ![sdCur] = "closed"] /\ sdTodo' = sdTodo \ {sdCur}
    /\ sdPc' = "scan" /\ sdCur' = 0
    /\ H("sd", 0)
    /\ UnchangedSdRest /\ UNCHANGED <<lis, ibh, mu, sdAllIdle, sdRet, sdStartedAtRet, sdOpenAtRet, isShutdown>>

\* end of a pass: return nil when everything was idle, else poll again (50 ms timer)       hook sd.ret
SdPassEnd ==
    /\ sdPc = "scan" /\ sdTodo = {}
    /\ IF sdAllIdle
       THEN /\ sdPc' = "done" /\ sdRet' = "nil" /\ mu' = 0
            /\ sdStartedAtRet' = {c \in Conns : started[c] > delivered[c]}
            /\ sdOpenAtRet' = {c \in everTracked : sock[c] = "open"}
            /\ UNCHANGED <<sdTodo, sdAllIdle, sdCur>>
       ELSE /\ sdTodo' = {c \in tracked : sock[c] = "open" \/ ibh[c]} /\ sdAllIdle' = TRUE
            /\ UNCHANGED <<sdPc, sdCur, sdRet, mu, sdStartedAtRet, sdOpenAtRet>>
    /\ H("sd", 0)
    /\ UnchangedSdRest /\ UNCHANGED <<lis, sock, ibh, isShutdown>>

\* the caller's context expires while connections are still being handled: Shutdown returns ctx.Err()
SdTimeout ==
    /\ sdPc = "scan" /\ sdTodo = {} /\ ~sdAllIdle
    /\ sdPc' = "done" /\ mu' = 0
    /\ IF TimeoutIsError THEN sdRet' = "ctxerr" /\ UNCHANGED <<sdStartedAtRet, sdOpenAtRet>>
       ELSE /\ sdRet' = "nil"
            /\ sdStartedAtRet' = {c \in Conns : started[c] > delivered[c]}
            /\ sdOpenAtRet' = {c \in everTracked : sock[c] = "open"}
    /\ H("sdtimeout", 0)
    /\ UnchangedSdRest /\ UNCHANGED <<lis, sock, ibh, isShutdown, sdCur, sdTodo, sdAllIdle>>

\* the application calls Shutdown again after one that gave up
SdRetry ==
    /\ sdPc = "done" /\ sdRet = "ctxerr" /\ mu = 0
    /\ IF RetryWaits
       THEN /\ mu' = -1 /\ sdPc' = "scan" /\ sdRet' = "none" /\ sdAllIdle' = TRUE
            /\ sdTodo' = {c \in tracked : sock[c] = "open" \/ ibh[c]}
            /\ UNCHANGED <<sdStartedAtRet, sdOpenAtRet>>
       ELSE /\ sdRet' = "nil" /\ UNCHANGED <<mu, sdPc, sdAllIdle, sdTodo>>
            /\ sdStartedAtRet' = {c \in Conns : started[c] > delivered[c]}
            /\ sdOpenAtRet' = {c \in everTracked : sock[c] = "open"}
    /\ H("shutdown", 0)
    /\ UnchangedSdRest /\ UNCHANGED <<lis, sock, ibh, isShutdown, sdCur>>

----------------------------------------------------------------------------
Quiescent ==
    /\ acc = "returned"
    /\ \A c \in Conns : cpc[c] \in {"none", "done"}
    /\ sdPc \in {"idle", "done"}

Next ==
    \/ \E c \in Conns : Dial(c) \/ Send(c) \/ Hangup(c)
    \/ Cancel \/ ServeStart \/ AcceptConn \/ ListenerFail \/ AcceptFail \/ CancelWake \/ AcceptCb \/ CtxCheck \/ TrackAdd
    \/ \E c \in Conns : ConnLeave(c) \/ ConnRead(c) \/ ConnMark(c) \/ ConnHandle(c) \/ ConnWrite(c) \/ ConnUnmark(c) \/ ConnClose(c) \/ ConnUntrack(c) \/ ConnCloseCb(c)
    \/ SdStart \/ (\E c \in Conns : SdCheck(c)) \/ SdClose \/ SdPassEnd \/ SdTimeout \/ SdRetry
    \/ (Quiescent /\ UNCHANGED vars)

AccSteps == ServeStart \/ AcceptConn \/ AcceptFail \/ CancelWake \/ AcceptCb \/ CtxCheck \/ TrackAdd
ConnSteps(c) == ConnLeave(c) \/ ConnRead(c) \/ ConnMark(c) \/ ConnHandle(c) \/ ConnWrite(c) \/ ConnUnmark(c) \/ ConnClose(c) \/ ConnUntrack(c) \/ ConnCloseCb(c)
SdSteps == (\E c \in Conns : SdCheck(c)) \/ SdClose \/ (SdPassEnd /\ sdAllIdle) \/ SdTimeout

Spec == Init /\ [][Next]_vars /\ WF_vars(AccSteps) /\ (\A c \in Conns : WF_vars(ConnSteps(c))) /\ WF_vars(SdSteps)

----------------------------------------------------------------------------
(* Properties (C17) *)
NoCrash == ~crash
\* the count the accept callback is told lies between the connections whose socket is still open and those not yet cleaned up
TrueCount == \A c \in Conns : acceptArg[c] # 0 => liveAtCb[c][1] + 1 <= acceptArg[c] /\ acceptArg[c] <= liveAtCb[c][2] + 1
RejectedClosed == \A c \in rejects : (acceptArg[c] # 0 /\ cur # c) => sock[c] = "closed" /\ c \notin everTracked
CloseAtMostOnce == \A c \in Conns : closeCb[c] <= 1
CloseExactlyOnce == \A c \in Conns : (cpc[c] = "done" /\ onClose) => closeCb[c] = 1
\* after Shutdown returned nil: the listener is closed, no served connection is left open, every started handler delivered its reply
AfterShutdown ==
    sdRet = "nil" =>
        /\ (acc # "starting" => lis = "closed")     \* (a serve call that has not begun yet closes its listener when it begins)
        /\ sdOpenAtRet = {}          \* every connection Shutdown knew about is closed
        /\ sdStartedAtRet = {}       \* every request whose handler had started has its reply
NoStragglerAfterShutdown == (sdRet = "nil" /\ acc = "returned") => \A c \in Conns : sock[c] # "open"
\* E05: "server closed" is the answer to Shutdown or cancellation only; a failed listener ends the serve call all the same
ClosedOnlyWhenAsked == (serveRet = "closed") => (isShutdown \/ ctxDone)
FailureThenServeReturns == (lis = "failed") ~> (acc = "returned")
\* (after a listener failure the serve call has already returned the listener's error when Shutdown comes)
ShutdownThenServeReturned == (sdRet = "nil") ~> (acc = "returned")
ShutdownThenServeReturns == (sdRet = "nil") ~> (serveRet = "closed")
CancelThenServeReturns == ctxDone ~> (acc = "returned")

ViewNoHist == <<onAccept, onClose, rejects, cli, sent, delivered, lis, queue, acc, cur, sock, tracked, count, everTracked,
          cpc, ibh, started, mu, sdPc, sdCur, sdTodo, sdAllIdle, sdRet, sdStartedAtRet, sdOpenAtRet, isShutdown, ctxDone, crash, serveRet,
          closeCb, acceptArg, liveAtCb>>
EmitDone == (Emit /\ Quiescent) => PrintT(<<"CASE", ToJson([op |-> "life", k |-> K, onAccept |-> onAccept, onClose |-> onClose,
                                                         rejects |-> rejects, steps |-> hist])>>)
=============================================================================
