SPECIFICATION Spec
CONSTANTS NCalls = 3 MatchReply = FALSE Emit = TRUE
INVARIANT EmitDone
CHECK_DEADLOCK FALSE
