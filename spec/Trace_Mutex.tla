----------------------------- MODULE Trace_Mutex -----------------------------
(***************************************************************************)
(* Trace validation for C14: the log of a shared client's transport        *)
(* (arrivals of goroutines at transport operations, ordered by a sequence  *)
(* number taken under the log's mutex) must be a behaviour of the LOCKED   *)
(* ClientMutex specification: a request is written only while no other     *)
(* caller's exchange is open, reads belong to the open exchange, the       *)
(* connection is closed / replaced only between exchanges, and a           *)
(* successful caller holds the reply to its own request.                   *)
(***************************************************************************)
EXTENDS Integers, Sequences, TLC, Json, IOUtils

Trace == ndJsonDeserialize(IOEnv.TRACE_FILE)
VARIABLES l, open, n, lenient, hooked, pend
vars == <<l, open, n, lenient, hooked, pend>>
\* hooked: the client of this run has hooks installed; pend: the caller whose reply is complete but whose before-parse
\* hook has not run yet - the hook is part of the call, no other caller's request may go out before it
\* lenient: some callers of this run give up (their context expires) while they queue or while the device answers.  The
\* library then leaves the abandoned call's reply on the in-order transport for the next caller (recorded observation
\* E03-F1, outside C14's quantification), so WHOSE reply a caller reads is not judged in such a run; everything else is.

\* An exchange is open from the arrival of its write at the transport until the transport operation
\* that ends it is done (the read that delivers the reply, or a failed write).  Both events are
\* logged inside the transport, i.e. while the client still holds whatever protects the exchange.
Judge(e) ==
    CASE e.ev \in {"reset", "sched", "end"} -> "ok"
      [] e.ev = "arrive" ->
            IF e.op = "write" THEN
                 \* (lenient runs: a caller that gave up has left its exchange unfinished without the transport noticing; that
                 \* another caller's exchange was still in progress shows when THAT caller touches the transport again)
                 (IF open # 0 /\ open # e.p /\ ~lenient THEN "request-written-while-another-callers-exchange-is-open"
                  ELSE IF pend # 0 /\ pend # e.p /\ ~lenient THEN "request-written-before-the-previous-call-had-run-its-before-parse-hook"
                  ELSE "ok")
            ELSE IF e.op = "read" THEN
                 (IF open # e.p THEN "transport-read-outside-the-callers-own-exchange" ELSE "ok")
            ELSE IF e.op = "flush" THEN
                 \* (discarding what is pending belongs to an exchange like its reads; a flush from a goroutine that is no
                 \* caller - p = 0 - while a caller's exchange is open throws that caller's reply away)
                 (IF open # 0 /\ open # e.p THEN "transport-flushed-while-another-callers-exchange-is-open" ELSE "ok")
            ELSE \* close / dial
                 (IF open # 0 THEN "connection-closed-or-replaced-while-an-exchange-is-open" ELSE "ok")
      [] e.ev = "done" ->
            IF e.op = "read" /\ e.err = 0 /\ e.owner # e.p /\ ~lenient THEN "caller-read-another-callers-reply" ELSE "ok"
      [] e.ev = "return" ->
            IF e.kind = "panic" THEN "panic"
            ELSE IF e.p <= n /\ e.kind = "ok" /\ e.unit # e.p /\ ~lenient THEN "caller-received-another-callers-reply"
            ELSE "ok"
      [] e.ev = "hook" -> "ok"
      [] e.ev = "missing" -> "expected-transport-step-did-not-occur"
      [] e.ev = "stuck"   -> "goroutines-did-not-finish"
      [] e.ev = "race"    -> "data-race-reported-by-the-race-detector"
      [] e.ev = "crash"   -> "process-terminated-by-a-fatal-runtime-error"
      [] OTHER -> "unknown-event"

Init == l = 1 /\ open = 0 /\ n = 0 /\ lenient = FALSE /\ hooked = FALSE /\ pend = 0
Next ==
    /\ l <= Len(Trace)
    /\ LET e == Trace[l] v == Judge(e) IN
       /\ IF v = "ok" THEN TRUE ELSE PrintT(<<"VERDICT", l, v>>)
       /\ CASE e.ev = "reset" -> open' = 0 /\ n' = e.n /\ lenient' = e.ctx /\ hooked' = e.hooks /\ pend' = 0
            \* (a caller that has returned has no exchange open any more, whatever it left unread)
            [] e.ev = "return" -> open' = (IF e.p = open THEN 0 ELSE open) /\ pend' = (IF e.p = pend THEN 0 ELSE pend) /\ UNCHANGED <<n, lenient, hooked>>
            [] e.ev = "hook" -> pend' = (IF e.p = pend THEN 0 ELSE pend) /\ UNCHANGED <<open, n, lenient, hooked>>
            [] e.ev = "arrive" /\ e.op = "write" -> open' = e.p /\ UNCHANGED <<n, lenient, hooked, pend>>
            \* (a read that delivers a fragment with more of the same reply to come leaves the exchange open)
            [] e.ev = "done" /\ e.p = open /\ ((e.op = "read" /\ e.more = 0) \/ (e.op = "write" /\ e.err = 1)) ->
                  /\ open' = 0 /\ pend' = (IF hooked /\ e.op = "read" /\ e.err = 0 THEN e.p ELSE pend) /\ UNCHANGED <<n, lenient, hooked>>
            [] OTHER -> UNCHANGED <<open, n, lenient, hooked, pend>>
    /\ l' = l + 1
Spec == Init /\ [][Next]_vars
AllConsumed == TLCGet("stats").diameter - 1 = Len(Trace)
=============================================================================
