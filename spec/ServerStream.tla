----------------------------- MODULE ServerStream -----------------------------
(***************************************************************************)
(* Per-connection behaviour of the Modbus TCP server (C15, C16).           *)
(* The input is a byte stream: the concatenation of request frames, cut    *)
(* into segments (reads) arbitrarily.  Reference behaviour: after every    *)
(* segment the bytes sent so far are exactly the replies, in order, to the *)
(* frames that have arrived completely; nothing for an incomplete frame;   *)
(* left-over bytes stay for the next frame.                                *)
(* The handler is the deterministic device defined here (the harness       *)
(* implements the same device; what it returns is validated).              *)
(***************************************************************************)
EXTENDS ModbusPDU, FiniteSets

\* the device: registers hold their own address, coil a is set iff a mod 3 = 0
DevRegBytes(addr, qty) == [i \in 1..(2 * qty) |-> LET a == (addr + (i - 1) \div 2) % 65536 IN IF i % 2 = 1 THEN Hi(a) ELSE Lo(a)]
DevCoils(addr, qty) == PackCoils([i \in 1..qty |-> IF ((addr + i - 1) % 65536) % 3 = 0 THEN 1 ELSE 0])

DeviceResp(r) ==
    CASE r.fc \in {1, 2}     -> Resp(r.fc, r.unit, 0, 0, DevCoils(r.addr, r.qty), <<>>, 0, <<>>)
      [] r.fc \in {3, 4, 23} -> Resp(r.fc, r.unit, 0, 0, DevRegBytes(r.addr, r.qty), <<>>, 0, <<>>)
      [] r.fc = 5            -> Resp(5, r.unit, r.addr, r.qty, <<>>, <<>>, 0, <<>>)
      [] r.fc = 6            -> Resp(6, r.unit, r.addr, 0, r.data, <<>>, 0, <<>>)
      [] r.fc \in {15, 16}   -> Resp(r.fc, r.unit, r.addr, r.qty, <<>>, <<>>, 0, <<>>)
      [] r.fc = 17           -> Resp(17, r.unit, 0, 0, <<>>, <<1, 2>>, 255, <<3>>)

Exception(f, code) == TCPADU(MBAPTid(f), MBAPUnit(f), ExcPDU(f[8] % 128, code))

\* classes of a complete frame (its own length field is consistent with its length)
FrameClass(f) ==
    IF ~TCPFramed(f) THEN "unframed"
    ELSE IF f[8] \notin SupportedFC THEN (IF f[8] \in 1..127 THEN "unsupported" ELSE "other")
    ELSE LET d == DecodeTCPReq(f) IN
         IF ~d.ok THEN "malformed"                      \* truncated body / inconsistent byte count
         ELSE IF LegalReq(d.r) THEN "legal"
         ELSE IF OutOfLimitReq(d.r) THEN "outoflimit"
         ELSE "malformed"

\* reply of the server to a complete LEGAL frame when the handler is the device
DeviceReply(f) == LET d == DecodeTCPReq(f) IN TCPADU(d.tid, d.r.unit, RespPDU(DeviceResp(d.r)))

\* a well-formed exception reply addressed to request frame f (any code)
IsExceptionFor(f, out) ==
    /\ Len(out) = 9 /\ TCPFramed(out)
    /\ MBAPTid(out) = MBAPTid(f) /\ MBAPUnit(out) = MBAPUnit(f)
    /\ out[8] = (f[8] % 128) + 128

\* C16: what a reply (if any is sent) to the single complete frame f must look like.
\*   handler: "device" | "errTyped" (NewErrorParseTCP(code 4)) | "errGeneric" | others
\*   (a handler error that carries addressing of its own - "errRelayed" in the generator - is judged as "errGeneric":
\*   whatever the error value holds, the reply is the exception FOR THE REQUEST)
ReplyVerdict(f, handler, out) ==
    LET cls == FrameClass(f) IN
    IF out = <<>> THEN "ok"                              \* the statement constrains the replies that ARE sent
    ELSE IF ~TCPFramed(out) THEN "reply-is-not-a-well-formed-adu"
    ELSE IF MBAPTid(out) # MBAPTid(f) \/ MBAPUnit(out) # MBAPUnit(f) THEN "reply-not-addressed-to-the-request"
    ELSE CASE cls = "legal" /\ handler = "device" ->
                 IF out = DeviceReply(f) THEN "ok" ELSE "handler-response-not-passed-through-unchanged"
           [] cls = "legal" /\ handler = "errTyped" ->
                 IF IsExceptionFor(f, out) /\ out[9] = 4 THEN "ok" ELSE "handler-error-reply-is-not-the-exception-for-the-request"
           [] cls = "legal" /\ handler = "errGeneric" ->
                 IF IsExceptionFor(f, out) THEN "ok" ELSE "handler-error-reply-is-not-the-exception-for-the-request"
           [] cls = "unsupported" ->
                 IF IsExceptionFor(f, out) /\ out[9] = 1 THEN "ok" ELSE "unsupported-function-reply-is-not-exception-01"
           [] cls = "outoflimit" ->
                 IF IsExceptionFor(f, out) /\ out[9] = 3 THEN "ok" ELSE "out-of-range-reply-is-not-exception-03"
           [] cls = "malformed" ->
                 \* the statement does not say that a structurally inconsistent request must be answered with an
                 \* exception; what is sent must be addressed (checked above) and, if it is an exception, well formed
                 IF out[8] >= 128 /\ ~IsExceptionFor(f, out) THEN "exception-reply-to-malformed-request-not-well-formed" ELSE "ok"
           [] OTHER -> "ok"

\* C15: frames (all legal, supported) and the number of stream bytes delivered so far
RECURSIVE EndOffsets(_, _, _)
EndOffsets(frames, i, acc) == IF i > Len(frames) THEN <<>> ELSE <<acc + Len(frames[i])>> \o EndOffsets(frames, i + 1, acc + Len(frames[i]))
Completed(frames, delivered) == LET e == EndOffsets(frames, 1, 0) IN Cardinality({i \in DOMAIN e : e[i] <= delivered})
\* frames whose reply the statements determine completely: legal ones (the device's answer), unsupported function
\* codes (exception 01) and out-of-range quantities / values (exception 03)
Answerable(f) == FrameClass(f) \in {"legal", "unsupported", "outoflimit"}
ReplyOf(f) == CASE FrameClass(f) = "legal" -> DeviceReply(f)
                [] FrameClass(f) = "unsupported" -> Exception(f, 1)
                [] OTHER -> Exception(f, 3)
RECURSIVE Replies(_, _)
Replies(frames, k) == IF k = 0 THEN <<>> ELSE Replies(frames, k - 1) \o ReplyOf(frames[k])
=============================================================================
