SPECIFICATION Spec
CONSTANTS SharedBuf = FALSE Emit = FALSE Handler = "device"
INVARIANT OwnRepliesOnly
CHECK_DEADLOCK FALSE
