SPECIFICATION Spec
CONSTANTS N = 2 M = 1 UseLock = FALSE WithAdmin = TRUE Emit = FALSE
INVARIANT OneExchangeAtATime
INVARIANT OwnReply
INVARIANT SameConnection
VIEW ViewNoHist
CHECK_DEADLOCK FALSE
