----------------------------- MODULE Trace_Regs -----------------------------
(***************************************************************************)
(* Trace validation for typed register access (C04) and read-only          *)
(* decoding (C13).  The monitor is the Registers state machine: `reset'    *)
(* installs a window, every `call' must be a Call step of the              *)
(* specification: defined => the specified value of the ORIGINAL payload,  *)
(* undefined => error, never a panic, and the payload observed after the   *)
(* call equals the original payload.                                       *)
(***************************************************************************)
EXTENDS Registers, TLC, Json, IOUtils

Trace == ndJsonDeserialize(IOEnv.TRACE_FILE)

VARIABLES l, payload, start, def
vars == <<l, payload, start, def>>

J_call(e) ==
    IF e.outcome = "panic" THEN "panic"
    ELSE IF Defined(start, payload, e) THEN
         IF e.outcome # "ok" THEN "access-inside-window-refused"
         ELSE IF e.value # ValueOf(start, payload, def, e) THEN
              (IF e.after # payload THEN "value-differs-and-payload-changed" ELSE "value-differs-from-addressed-wire-bytes")
         ELSE IF e.after # payload THEN "payload-changed-by-read"
         ELSE "ok"
    ELSE IF e.outcome = "ok" THEN "access-outside-window-returned-a-value"
    ELSE IF e.after # payload THEN "payload-changed-by-read"
    ELSE "ok"

\* every address from..to was refused: none of them may be a defined access
J_range(e) ==
    LET n == SizeOf(e.acc, e.len)
        lo == start
        hi == start + Count(payload) - n     \* defined addresses are lo..hi (if lo <= hi)
    IN IF e.acc = "Bit" /\ e.bit > 15 THEN "ok"
       ELSE IF lo <= hi /\ e.from <= hi /\ e.to >= lo THEN "access-inside-window-refused-in-range"
       ELSE "ok"

\* ExtractFields result list: one entry per field, in field order
J_extract(e) ==
    IF e.outcome = "panic" THEN "panic"
    ELSE IF Len(e.results) # Len(e.fields) THEN "extract-result-count-differs"
    ELSE LET bad == {i \in 1..Len(e.fields) : J_call([e.fields[i] EXCEPT !.outcome = e.results[i].outcome,
                                                                         !.value = e.results[i].value,
                                                                         !.after = e.after]) # "ok"}
         IN IF bad = {} THEN "ok"
            ELSE J_call([e.fields[CHOOSE i \in bad : TRUE] EXCEPT !.outcome = e.results[CHOOSE i \in bad : TRUE].outcome,
                                                                  !.value = e.results[CHOOSE i \in bad : TRUE].value,
                                                                  !.after = e.after])

Judge(e) ==
    CASE e.ev = "reset"    -> "ok"
      [] e.ev = "setorder" -> "ok"
      [] e.ev = "call"     -> J_call(e)
      [] e.ev = "range"    -> J_range(e)
      [] e.ev = "extract"  -> J_extract(e)
      [] e.ev = "coilrepeat" ->
            IF e.outcome = "panic" THEN "panic"
            ELSE IF e.payloadAfter # <<165, 60, 15>> THEN "payload-changed-by-read"
            ELSE IF e.fieldsAfter # e.fieldsBefore THEN "extraction-changed-the-request-it-was-given"
            ELSE IF e.second # e.first THEN "repeated-extraction-gives-different-results"
            ELSE "ok"
      [] e.ev = "race"     -> "data-race-in-library-code-between-independent-register-views"
      \* the driver's watchdog: the case was still running (no event for a minute, or the heap beyond 6 GiB)
      [] e.ev = "runaway" -> "library-call-does-not-return"
      [] OTHER             -> "unknown-event"

Init == l = 1 /\ payload = <<>> /\ start = 0 /\ def = BE_HIGH
Next ==
    /\ l <= Len(Trace)
    /\ LET e == Trace[l] v == Judge(e) IN
         /\ IF v = "ok" THEN TRUE ELSE PrintT(<<"VERDICT", l, v>>)
         /\ IF e.ev = "reset" THEN payload' = e.payload /\ start' = e.start /\ def' = e.def
            ELSE IF e.ev = "setorder" THEN def' = e.order /\ UNCHANGED <<payload, start>>
            ELSE UNCHANGED <<payload, start, def>>
    /\ l' = l + 1
Spec == Init /\ [][Next]_vars
AllConsumed == TLCGet("stats").diameter - 1 = Len(Trace)
=============================================================================
