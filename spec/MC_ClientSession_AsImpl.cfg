SPECIFICATION Spec
CONSTANTS NCalls = 3 MatchReply = FALSE Emit = FALSE
INVARIANT OwnReplyOnly
VIEW ViewNoHist
CHECK_DEADLOCK FALSE
