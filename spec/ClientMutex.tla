----------------------------- MODULE ClientMutex -----------------------------
(***************************************************************************)
(* One client instance shared by goroutines (C14).                         *)
(* Callers 1..N issue M request calls each; one goroutine calls Close and  *)
(* one calls Connect.  A request call is: acquire the client's lock, write *)
(* the request frame to the transport, read the reply, release.  The       *)
(* transport answers requests in arrival order.  Connect replaces the      *)
(* connection, Close closes the current one, both under the lock.          *)
(* UseLock = FALSE removes the lock: TLC then finds two exchanges open at  *)
(* once / a caller reading another caller's reply / the connection         *)
(* replaced in the middle of an exchange (non-vacuity).                    *)
(* `hist' records the schedule (which goroutine takes which transport      *)
(* step); complete schedules of the LOCKED model are emitted as cases and  *)
(* replayed on the real client with a gated transport (Trace_Mutex).       *)
(***************************************************************************)
EXTENDS Integers, Sequences, FiniteSets, TLC, Json
CONSTANTS N, M, UseLock, WithAdmin, Emit

Callers == 1..N
Closer == N + 1
Connector == N + 2
Procs == IF WithAdmin THEN 1..(N + 2) ELSE Callers

VARIABLES pc, left, lock, open, queue, got, conn, connAt, closed, hist
vars == <<pc, left, lock, open, queue, got, conn, connAt, closed, hist>>

Init ==
    /\ pc = [p \in Procs |-> "idle"]
    /\ left = [p \in Procs |-> IF p \in Callers THEN M ELSE 1]
    /\ lock = 0
    /\ open = {}
    /\ queue = <<>>
    /\ got = [p \in Callers |-> 0]
    /\ conn = 1
    /\ connAt = [p \in Callers |-> 0]
    /\ closed = FALSE
    /\ hist = <<>>

H(a, p) == hist' = Append(hist, [a |-> a, p |-> p])

\* the goroutine is started (calls Do / Close / Connect)
Start(p) ==
    /\ pc[p] = "idle" /\ left[p] > 0
    /\ pc' = [pc EXCEPT ![p] = "acquire"]
    /\ H("start", p)
    /\ UNCHANGED <<left, lock, open, queue, got, conn, connAt, closed>>

Acquire(p) ==
    /\ pc[p] = "acquire"
    /\ (UseLock => lock = 0)
    /\ lock' = IF UseLock THEN p ELSE lock
    /\ pc' = [pc EXCEPT ![p] = IF p \in Callers THEN "write" ELSE "admin"]
    /\ UNCHANGED <<left, open, queue, got, conn, connAt, closed, hist>>

\* on a closed connection the write fails and the call returns without reading
Write(p) ==
    /\ pc[p] = "write"
    /\ IF closed
       THEN /\ pc' = [pc EXCEPT ![p] = "release"]
            /\ got' = [got EXCEPT ![p] = p]
            /\ UNCHANGED <<open, queue, connAt>>
       ELSE /\ open' = open \cup {p}
            /\ queue' = Append(queue, p)
            /\ connAt' = [connAt EXCEPT ![p] = conn]
            /\ pc' = [pc EXCEPT ![p] = "read"]
            /\ UNCHANGED got
    /\ H("step", p)
    /\ UNCHANGED <<left, lock, conn, closed>>

Read(p) ==
    /\ pc[p] = "read" /\ queue # <<>>
    /\ got' = [got EXCEPT ![p] = Head(queue)]
    /\ queue' = Tail(queue)
    /\ pc' = [pc EXCEPT ![p] = "release"]
    /\ H("step", p)
    /\ UNCHANGED <<left, lock, open, conn, connAt, closed>>

Admin(p) ==
    /\ pc[p] = "admin"
    /\ conn' = IF p = Connector THEN conn + 1 ELSE conn
    /\ closed' = (p = Closer)
    /\ queue' = IF p = Connector THEN <<>> ELSE queue
    /\ pc' = [pc EXCEPT ![p] = "release"]
    /\ H("step", p)
    /\ UNCHANGED <<left, lock, open, got, connAt>>

Release(p) ==
    /\ pc[p] = "release"
    /\ lock' = IF UseLock THEN 0 ELSE lock
    /\ open' = open \ {p}
    /\ left' = [left EXCEPT ![p] = left[p] - 1]
    /\ pc' = [pc EXCEPT ![p] = "idle"]
    /\ UNCHANGED <<queue, got, conn, connAt, closed, hist>>

Done == \A p \in Procs : pc[p] = "idle" /\ left[p] = 0
Next == (\E p \in Procs : Start(p) \/ Acquire(p) \/ Write(p) \/ Read(p) \/ Admin(p) \/ Release(p)) \/ (Done /\ UNCHANGED vars)
Spec == Init /\ [][Next]_vars

OneExchangeAtATime == Cardinality(open) <= 1
OwnReply == \A p \in Callers : pc[p] = "release" => got[p] = p
SameConnection == \A p \in Callers : pc[p] = "read" \/ (pc[p] = "release" /\ p \in open) => connAt[p] = conn
ViewNoHist == <<pc, left, lock, open, queue, got, conn, connAt, closed>>
\* emission of complete schedules (only in the generator configuration)
EmitDone == (Emit /\ Done) => PrintT(<<"CASE", ToJson([op |-> "schedule", n |-> N, m |-> M, admin |-> WithAdmin, steps |-> hist])>>)
=============================================================================
