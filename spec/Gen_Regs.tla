------------------------------ MODULE Gen_Regs ------------------------------
(***************************************************************************)
(* Case generation for C04 (single accesses over window shapes) and C13    *)
(* (all call histories of length 1..k over representative calls).          *)
(***************************************************************************)
EXTENDS Registers, TLC, Json, FiniteSets, SequencesExt
CONSTANTS Set, Tier
Thorough == Tier = "thorough"
VARIABLE c

\* pairwise distinct, non-zero bytes (251 is prime, so i*7 mod 251 is injective for i < 251)
Pay(count) == [i \in 1..(2 * count) |-> ((i * 7 + 3) % 251) + 1]
\* variant with NUL characters inside (string termination) and repeated bytes
PayNul(count) == [i \in 1..(2 * count) |-> IF i % 5 = 0 THEN 0 ELSE ((i * 3) % 7) + 65]

Call(acc, addr, order, len, bit, high) ==
    [acc |-> acc, addr |-> addr, order |-> order, len |-> len, bit |-> bit, high |-> high]

Orders5 == {0} \cup NamedOrders

\* addresses worth probing for window [s, s+n)
Probe(s, n) ==
    ((IF n <= 6 THEN (s - 5)..(s + n + 5) ELSE ((s - 2)..(s + 4)) \cup ((s + n - 5)..(s + n + 2)))
     \cup {0, 1, 65534, 65535, (s + 32768) % 65536, (s + 32768 - n) % 65536, (s + 32767) % 65536,
           (s + 65536 - 1) % 65536, (s + n) % 65536}) \cap 0..65535

StrLens(n) == ({1, 2, 3, 4, 2 * n - 1, 2 * n, 2 * n + 1, 255} \cap 1..255)

CallsFor(s, n) ==
    {Call(a, ad, 0, 0, 0, 0) : a \in {"Uint16", "Int16", "Register", "Uint32", "Int32", "Float32", "Uint64", "Int64", "Float64"}, ad \in Probe(s, n)}
    \cup {Call(a, ad, 0, 0, 0, h) : a \in {"Byte", "Uint8", "Int8"}, ad \in Probe(s, n), h \in {0, 1}}
    \cup {Call("Bit", ad, 0, 0, b, 0) : ad \in Probe(s, n), b \in {0, 7, 8, 15, 16, 255}}
    \cup {Call(a, ad, o, 0, 0, 0) : a \in {"Uint32WithByteOrder", "Int32WithByteOrder", "Float32WithByteOrder",
                                           "Uint64WithByteOrder", "Int64WithByteOrder", "Float64WithByteOrder"},
                                    ad \in Probe(s, n), o \in Orders5}
    \cup {Call(a, ad, o, 0, 0, 0) : a \in {"DoubleRegister", "QuadRegister"}, ad \in Probe(s, n), o \in NamedOrders}
    \cup {Call("String", ad, 0, l, 0, 0) : ad \in Probe(s, n), l \in StrLens(n)}
    \cup {Call("StringWithByteOrder", ad, o, l, 0, 0) : ad \in Probe(s, n), l \in StrLens(n), o \in Orders5}

Counts == IF Thorough THEN {1, 2, 3, 4, 5, 124, 125} ELSE {1, 2, 4, 5, 125}
StartsFor(n) ==
    (IF Thorough THEN {0, 1, 2, 3, 100, 32767, 32768} ELSE {0, 3, 32768}) \cup
    {65536 - n - k : k \in (IF Thorough THEN 0..3 ELSE {0, 1})}
\* every named order as the default order (quick tier too: a deviation may show for one order only), and the bare word-order
\* flags (4 = LowWordFirst, 8 = HighWordFirst; thorough: the bare endianness flags 1, 2 as well)
Defs == NamedOrders \cup {4, 8} \cup (IF Thorough THEN {1, 2} ELSE {})

Win(s, n, d) ==
    [op |-> "window", start |-> s, payload |-> IF d = LE_LOW /\ n <= 5 THEN PayNul(n) ELSE Pay(n),
     def |-> d, calls |-> SetToSeq(CallsFor(s, n)), fresh |-> TRUE]
C04Cases(z) == UNION {{Win(s, n, d) : s \in StartsFor(n), d \in Defs} : n \in Counts}

\* C13: representative calls on a 5-register window at 100 (overlapping string / 16 / 32 / 64 bit reads)
Rep ==
    <<Call("Uint16", 100, 0, 0, 0, 0), Call("Uint16", 101, 0, 0, 0, 0), Call("Uint32", 100, 0, 0, 0, 0),
      Call("Uint32WithByteOrder", 100, BE_LOW, 0, 0, 0), Call("Uint32WithByteOrder", 101, LE_LOW, 0, 0, 0),
      Call("Uint64", 100, 0, 0, 0, 0), Call("Uint64WithByteOrder", 101, LE_HIGH, 0, 0, 0),
      Call("String", 100, 0, 4, 0, 0), Call("String", 100, 0, 3, 0, 0), Call("StringWithByteOrder", 101, BE_HIGH, 5, 0, 0),
      Call("StringWithByteOrder", 100, LE_LOW, 10, 0, 0), Call("Bit", 100, 0, 0, 9, 0), Call("Byte", 102, 0, 0, 0, 1),
      Call("DoubleRegister", 103, BE_LOW, 0, 0, 0), Call("QuadRegister", 100, LE_LOW, 0, 0, 0), Call("Register", 104, 0, 0, 0, 0),
      Call("Float32", 103, 0, 0, 0, 0), Call("Uint16", 105, 0, 0, 0, 0)>>
\* the full menu: every accessor x every order (0 = default and the four named ones) at two overlapping addresses
FullMenu ==
    SetToSeq(
        {Call(a, ad, 0, 0, 0, 0) : a \in {"Uint16", "Int16", "Register", "Uint32", "Int32", "Float32", "Uint64", "Int64", "Float64"}, ad \in {100, 101}}
        \cup {Call(a, 102, 0, 0, 0, h) : a \in {"Byte", "Uint8", "Int8"}, h \in {0, 1}}
        \cup {Call("Bit", 103, 0, 0, b, 0) : b \in {0, 15}}
        \cup {Call(a, ad, o, 0, 0, 0) : a \in {"Uint32WithByteOrder", "Int32WithByteOrder", "Float32WithByteOrder",
                                               "Uint64WithByteOrder", "Int64WithByteOrder", "Float64WithByteOrder"},
                                        ad \in {100, 101}, o \in Orders5}
        \cup {Call(a, 101, o, 0, 0, 0) : a \in {"DoubleRegister", "QuadRegister"}, o \in NamedOrders}
        \cup {Call("String", ad, 0, l, 0, 0) : ad \in {100, 102}, l \in {3, 6}}
        \cup {Call("StringWithByteOrder", 100, o, l, 0, 0) : l \in {4, 5}, o \in Orders5})
K == IF Thorough THEN 4 ELSE 3
RepIdx == IF Thorough THEN 1..14 ELSE 1..Len(Rep)
Hist(z) == UNION {[1..k -> (IF k = 4 THEN 1..10 ELSE 1..Len(Rep))] : k \in 1..K}
C13Cases(z) ==
    {[op |-> "window", start |-> 100, payload |-> pl, def |-> d, calls |-> [i \in 1..Len(h) |-> Rep[h[i]]], fresh |-> FALSE] :
        h \in Hist(0), pl \in {Pay(5)}, d \in {BE_HIGH}}
    \cup {[op |-> "window", start |-> 100, payload |-> PayNul(5), def |-> d, calls |-> [i \in 1..Len(h) |-> Rep[h[i]]], fresh |-> FALSE] :
        h \in UNION {[1..k -> 1..Len(Rep)] : k \in 1..2}, d \in {BE_HIGH, LE_LOW}}
    \* all histories of length 1 and 2 over the full menu (a mutation shows at the mutating call, order dependence at the second)
    \cup {[op |-> "window", start |-> 100, payload |-> Pay(6), def |-> d, calls |-> [i \in 1..Len(h) |-> FullMenu[h[i]]], fresh |-> FALSE] :
        h \in UNION {[1..k -> 1..Len(FullMenu)] : k \in 1..2}, d \in NamedOrders}

\* the default order changed BETWEEN reads on one Registers (WithByteOrder is a call like any other): every pair of
\* orders (named ones and bare flags), reads that consult the default
SetOrder(o) == Call("WithByteOrder", 0, o, 0, 0, 0)
AllOrders == NamedOrders \cup {1, 2, 4, 8}
DefReads == <<Call("Uint32", 100, 0, 0, 0, 0), Call("Uint64WithByteOrder", 101, 0, 0, 0, 0), Call("String", 102, 0, 4, 0, 0)>>
OrderHist(z) ==
    {[op |-> "window", start |-> 100, payload |-> Pay(6), def |-> BE_HIGH,
      calls |-> <<SetOrder(o[1]), DefReads[r[1]], SetOrder(o[2]), DefReads[r[2]], DefReads[r[1]]>>, fresh |-> FALSE] :
        o \in AllOrders \X AllOrders, r \in (1..3) \X (1..3)}

CaseSet(z) == CASE Set = "c04" -> C04Cases(0) [] Set = "c13" -> C13Cases(0) \cup OrderHist(0)

Init == c \in CaseSet(0)
Next == UNCHANGED c
SelfConsistent == DocExample
Emit == PrintT(<<"CASE", ToJson(c)>>)
=============================================================================
