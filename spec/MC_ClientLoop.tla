---------------------------- MODULE MC_ClientLoop ----------------------------
(***************************************************************************)
(* Design level for C07/C08/C12: a reference read loop over CONCRETE       *)
(* frames, checked against the exchange specification (Universal, Demand   *)
(* of ClientExchange) for every way the environment can cut the reply into *)
(* reads, insert empty timed-out reads, stall, close the stream, fail a    *)
(* read or cancel after any prefix.                                        *)
(* The loop: read; stop with a typed exception as soon as the bytes read   *)
(* are a complete, CRC-consistent exception frame; stop and parse when at  *)
(* least X bytes were read; on EOF parse what is there; on an I/O error,   *)
(* cancellation or the total timer return the classified error.            *)
(* XMode = "spec": X = the length of the specified normal reply (the       *)
(* design is then sound: TLC finds no violation).  "short"/"long": X is    *)
(* one less / one more, the way a wrong expected-length constant behaves:  *)
(* TLC finds the truncated-parse and the timeout counterexamples, i.e. the *)
(* properties are not vacuous and the conformance phase knows what to look *)
(* for on the real code.                                                   *)
(***************************************************************************)
EXTENDS ClientExchange, TLC
CONSTANTS Client, XMode

Fr == FramingOf(Client)
Args == {[fc |-> 3, unit |-> 1, addr |-> 10, qty |-> 1, data |-> <<>>, coils |-> <<>>, waddr |-> 0, tid |-> 258],
         [fc |-> 5, unit |-> 9, addr |-> 3, qty |-> 1, data |-> <<>>, coils |-> <<>>, waddr |-> 0, tid |-> 7],
         [fc |-> 1, unit |-> 1, addr |-> 0, qty |-> 9, data |-> <<>>, coils |-> <<>>, waddr |-> 0, tid |-> 1]}
NormalReply(a) ==
    LET r == ReqOfArgs(a) IN
    RespADU(Fr, a.tid, CASE r.fc = 3 -> Resp(3, r.unit, 0, 0, <<18, 52>>, <<>>, 0, <<>>)
                         [] r.fc = 5 -> Resp(5, r.unit, r.addr, r.qty, <<>>, <<>>, 0, <<>>)
                         [] r.fc = 1 -> Resp(1, r.unit, 0, 0, <<85, 1>>, <<>>, 0, <<>>))

VARIABLES args, R, fault, faultAt, D, empties, pc, ret
vars == <<args, R, fault, faultAt, D, empties, pc, ret>>

X == LET n == RespLenFor(Fr, ReqOfArgs(args)) IN
     CASE XMode = "spec" -> n [] XMode = "short" -> n - 1 [] XMode = "long" -> n + 1

NoRet == [kind |-> "none", reenc |-> <<>>, excUnit |-> 0, excFc |-> 0, excCode |-> 0, wrapsCause |-> 0, tooLong |-> 0, timeoutMsg |-> 0]
Ret(k) == [NoRet EXCEPT !.kind = k]

Parse(d) ==
    LET cl == ClassifyResp(Fr, d) IN
    CASE cl.kind = "normal"    -> [Ret("ok") EXCEPT !.reenc = d]
      [] cl.kind = "exception" -> [Ret("exception") EXCEPT !.excUnit = cl.unit, !.excFc = cl.fc, !.excCode = cl.code]
      [] OTHER                 -> Ret("err")

Init ==
    /\ args \in Args
    /\ R \in {NormalReply(args), ExcADU(Fr, args.tid, args.unit, args.fc, 2)}
    /\ fault \in {"none", "stall", "eof", "ioerr", "cancel"}
    /\ faultAt \in 0..(Len(R) - 1)
    /\ (fault = "none" => faultAt = 0)
    /\ D = <<>> /\ empties = 0 /\ pc = "read" /\ ret = NoRet

Limit == IF fault = "none" THEN Len(R) ELSE faultAt

Deliver(n) ==
    /\ pc = "read" /\ Len(D) + n <= Limit
    /\ LET d == D \o SubSeq(R, Len(D) + 1, Len(D) + n) IN
       /\ D' = d
       /\ empties' = 0
       /\ IF ClassifyResp(Fr, d).kind = "exception" THEN pc' = "done" /\ ret' = Parse(d)
          ELSE IF Len(d) >= X THEN pc' = "done" /\ ret' = Parse(d)
          ELSE UNCHANGED <<pc, ret>>
    /\ UNCHANGED <<args, R, fault, faultAt>>

EmptyRead == pc = "read" /\ empties < 2 /\ empties' = empties + 1 /\ UNCHANGED <<args, R, fault, faultAt, D, pc, ret>>

FaultNow ==
    /\ pc = "read" /\ Len(D) = Limit /\ fault \in {"eof", "ioerr", "cancel"}
    /\ pc' = "done"
    /\ ret' = CASE fault = "eof"    -> IF D = <<>> THEN Ret("clienterr") ELSE Parse(D)
                [] fault = "ioerr"  -> [Ret("clienterr") EXCEPT !.wrapsCause = 1]
                [] fault = "cancel" -> Ret("ctxerr")
    /\ UNCHANGED <<args, R, fault, faultAt, D, empties>>

\* the total-timeout timer can only win when the line has gone quiet
Timer ==
    /\ pc = "read" /\ Len(D) = Limit /\ fault \in {"none", "stall"}
    /\ pc' = "done" /\ ret' = [Ret("clienterr") EXCEPT !.timeoutMsg = 1]
    /\ UNCHANGED <<args, R, fault, faultAt, D, empties>>

Next == (\E n \in 1..Len(R) : Deliver(n)) \/ EmptyRead \/ FaultNow \/ Timer \/ (pc = "done" /\ UNCHANGED vars)
Spec == Init /\ [][Next]_vars /\ WF_vars(Next)

DoneOK == pc = "done" =>
    /\ Universal(Fr, ReqOfArgs(args), R, D, ret) = "ok"
    /\ Demand(fault, Fr, ReqOfArgs(args), R, D, ret, TRUE) = "ok"
\* every call returns (the environment's actions are bounded, the timer is weakly fair)
Terminates == <>(pc = "done")
=============================================================================
