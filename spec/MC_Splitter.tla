---------------------------- MODULE MC_Splitter ----------------------------
(***************************************************************************)
(* Design level for C06 in a scaled model: addresses 0..AddrMax, limit L,  *)
(* field sizes 1, 2, 4, up to N fields over 2 servers/units.  The greedy   *)
(* batching algorithm (sort slots by address; close a batch when the span  *)
(* from the batch's first address would exceed the limit; quantity = the   *)
(* largest end seen) is run as a state machine, one step per slot, and its *)
(* final result is checked against the abstract ValidSplit clauses.        *)
(* With Wrap = TRUE slot ends are computed modulo M (how a fixed-width     *)
(* address type behaves): TLC then produces the counterexample in which a  *)
(* field at the top of the address space lands in a request that does not  *)
(* contain it - the hypothesis the conformance phase replays on real code. *)
(***************************************************************************)
EXTENDS Integers, Sequences, FiniteSets, FiniteSetsExt, TLC
CONSTANTS L, AddrMax, N, Wrap, M, Gs

VARIABLES fields, todo, batch, out, first, pc
vars == <<fields, todo, batch, out, first, pc>>

Fld(g, a, s) == [g |-> g, addr |-> a, size |-> s]
Menu == {Fld(g, a, s) : g \in Gs, a \in 0..AddrMax, s \in {1, 2, 4}}
End(f) == f.addr + f.size
EndW(f) == IF Wrap THEN (f.addr + f.size) % M ELSE f.addr + f.size
SubW(a, b) == IF Wrap THEN (a - b + M) % M ELSE a - b

\* slots of group g: unique addresses, widest size wins, sorted by address
Slots(fs, g) ==
    LET as == {f.addr : f \in {x \in fs : x.g = g}}
        sorted == CHOOSE s \in [1..Cardinality(as) -> as] : \A i, j \in 1..Cardinality(as) : i < j => s[i] < s[j]
    IN [i \in 1..Cardinality(as) |->
          [g |-> g, addr |-> sorted[i],
           size |-> CHOOSE z \in {1, 2, 4} : (\E f \in fs : f.g = g /\ f.addr = sorted[i] /\ f.size = z)
                                              /\ \A f \in fs : f.g = g /\ f.addr = sorted[i] => f.size <= z,
           fs |-> {f \in fs : f.g = g /\ f.addr = sorted[i]}]]

Init ==
    /\ fields \in UNION {kSubset(k, Menu) : k \in 1..N}
    /\ todo = Slots(fields, 1) \o Slots(fields, 2)
    /\ batch = [g |-> 0, start |-> 0, qty |-> 0, fs |-> {}]
    /\ out = {}
    /\ first = -1
    /\ pc = "loop"

Step ==
    /\ pc = "loop"
    /\ IF todo = <<>> THEN
            /\ out' = IF batch.fs = {} THEN out ELSE out \cup {batch}
            /\ pc' = "done"
            /\ UNCHANGED <<fields, todo, batch, first>>
       ELSE LET s == Head(todo)
                newGroup == batch.fs # {} /\ batch.g # s.g
                f0 == IF batch.fs = {} \/ newGroup THEN s.addr ELSE first
                diff == SubW(EndW(s), f0)
            IN IF newGroup \/ (batch.fs # {} /\ diff > L) THEN
                    \* close the batch, open a new one at this slot
                    /\ out' = out \cup {batch}
                    /\ batch' = [g |-> s.g, start |-> s.addr, qty |-> s.size, fs |-> s.fs]
                    /\ first' = s.addr
                    /\ todo' = Tail(todo)
                    /\ UNCHANGED <<fields, pc>>
               ELSE /\ batch' = [g |-> s.g, start |-> f0, qty |-> IF batch.qty < diff THEN diff ELSE batch.qty,
                                 fs |-> batch.fs \cup s.fs]
                    /\ first' = f0
                    /\ todo' = Tail(todo)
                    /\ UNCHANGED <<fields, out, pc>>
Next == Step \/ (pc = "done" /\ UNCHANGED vars)
Spec == Init /\ [][Next]_vars

MinOf(S) == CHOOSE x \in S : \A y \in S : x <= y
MaxOf(S) == CHOOSE x \in S : \A y \in S : x >= y

\* the abstract statement of C06 on the scaled model
ValidSplitAbs ==
    /\ \A f \in fields : Cardinality({b \in out : f \in b.fs}) = 1
    /\ \A b \in out :
         /\ b.fs # {}
         /\ b.fs \subseteq fields
         /\ \A f \in b.fs : f.g = b.g /\ b.start <= f.addr /\ End(f) <= b.start + b.qty
         /\ b.start = MinOf({f.addr : f \in b.fs})
         /\ b.start + b.qty = MaxOf({End(f) : f \in b.fs})
         /\ b.qty \in 1..L
    /\ \A g \in {f.g : f \in fields} :
         LET fs == {f \in fields : f.g = g} IN
         MaxOf({End(f) : f \in fs}) - MinOf({f.addr : f \in fs}) <= L => Cardinality({b \in out : b.g = g}) = 1
\* a single field wider than the limit cannot be batched legally: the real builder returns an error there
Batchable == \A f \in fields : f.size <= L
DoneOK == pc = "done" /\ Batchable => ValidSplitAbs
\* the "never split when it fits" clause is exercised (some reachable final state has a group that fits)
=============================================================================
