SPECIFICATION Spec
CONSTANTS SharedBuf = FALSE Emit = TRUE Handler = "device"
INVARIANT OwnRepliesOnly EmitDone
CHECK_DEADLOCK FALSE
