SPECIFICATION Spec
CONSTANTS K = 2 CloseGuardOwn = TRUE CancelWakesAccept = TRUE ShutdownClaims = TRUE TrackChecksDown = TRUE UnmarkAfterWrite = TRUE StartupSafe = TRUE ListenerMayFail = FALSE FailureDistinct = TRUE TimeoutIsError = FALSE RetryWaits = TRUE Emit = FALSE
INVARIANT NoCrash
INVARIANT TrueCount
INVARIANT RejectedClosed
INVARIANT CloseAtMostOnce
INVARIANT CloseExactlyOnce
INVARIANT AfterShutdown
INVARIANT NoStragglerAfterShutdown
PROPERTY ShutdownThenServeReturns
PROPERTY CancelThenServeReturns
VIEW ViewNoHist
CHECK_DEADLOCK FALSE
