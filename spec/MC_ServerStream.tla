--------------------------- MODULE MC_ServerStream ---------------------------
(***************************************************************************)
(* Design level for C15: a reference assembler (append the segment; while  *)
(* a complete frame is at the head of the buffer, handle it and consume    *)
(* exactly its bytes) satisfies "after every segment the output is the     *)
(* replies to exactly the completely delivered frames" for every           *)
(* segmentation of up to 3 frames.  OnePerRead = TRUE models an assembler  *)
(* that handles at most one frame per segment, Early = TRUE one that       *)
(* answers as soon as the header is there: TLC finds the counterexamples.  *)
(* Frames are abstract: frame k has length Lens[k], its reply is <<k>>.    *)
(***************************************************************************)
EXTENDS Integers, Sequences, FiniteSets, TLC
CONSTANTS OnePerRead, Early, Hdr
Lens == <<4, 3, 5>>

Total == LET S[i \in 0..Len(Lens)] == IF i = 0 THEN 0 ELSE S[i - 1] + Lens[i] IN S[Len(Lens)]
EndOf(k) == LET S[i \in 0..Len(Lens)] == IF i = 0 THEN 0 ELSE S[i - 1] + Lens[i] IN S[k]

VARIABLES delivered, buf, next, out
vars == <<delivered, buf, next, out>>
\* buf = number of buffered bytes not yet consumed; next = index of the frame at the head of the buffer

Init == delivered = 0 /\ buf = 0 /\ next = 1 /\ out = <<>>

RECURSIVE Drain(_, _, _, _)
\* handle complete frames at the head; returns <<buf, next, out>>
Drain(b, n, o, first) ==
    IF n > Len(Lens) THEN <<b, n, o>>
    ELSE IF b >= Lens[n] THEN (IF OnePerRead /\ ~first THEN <<b, n, o>> ELSE Drain(b - Lens[n], n + 1, Append(o, n), FALSE))
    ELSE IF Early /\ b >= Hdr /\ first THEN <<0, n + 1, Append(o, -n)>>      \* replies (with an error) to a partial frame and drops it
    ELSE <<b, n, o>>

Segment(k) ==
    /\ delivered + k <= Total
    /\ delivered' = delivered + k
    /\ LET r == Drain(buf + k, next, out, TRUE) IN buf' = r[1] /\ next' = r[2] /\ out' = r[3]
Next == (\E k \in 1..Total : Segment(k)) \/ (delivered = Total /\ UNCHANGED vars)
Spec == Init /\ [][Next]_vars

CompletedNow == Cardinality({k \in 1..Len(Lens) : EndOf(k) <= delivered})
AnswersExactlyCompleted == out = [i \in 1..CompletedNow |-> i]
=============================================================================
