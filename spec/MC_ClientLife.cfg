SPECIFICATION Spec
CONSTANTS MaxOps = 6 Emit = FALSE
INVARIANT OnlyCurrentTouched NoIOWithoutConnection OkOnlyOnOpenConnection ReplacedConnectionsNeverUsed
CHECK_DEADLOCK FALSE
