------------------------------ MODULE Trace_Life ------------------------------
(***************************************************************************)
(* Trace validation for the server lifecycle (C17).  A scenario is reset,  *)
(* then hook events (the linearization points of server.go, logged under   *)
(* the log's mutex with a sequence number), callback invocations, client   *)
(* observations and return values, then `end' with what the harness found  *)
(* after everything had come to rest.  The rules are the clauses of C17;   *)
(* asynchronous windows are bounded explicitly:                            *)
(*  - the count passed to the accept callback must equal the number of     *)
(*    live connections at SOME instant between the accept loop's           *)
(*    accept.ret event and the callback (live = added and not yet removed; *)
(*    the statement does not say whether a connection stops being live     *)
(*    when its socket is closed or when it is removed, both are allowed)   *)
(*  - "eventually" means by the end of the scenario (the harness waits     *)
(*    1.2 s for serve to return, far above any step of the code)           *)
(***************************************************************************)
EXTENDS Integers, Sequences, FiniteSets, TLC, Json, IOUtils

Trace == ndJsonDeserialize(IOEnv.TRACE_FILE)

VARIABLES l, cfg, added, removed, sclosed, accepted, winLo, winHi, rejected, rejClosed, closeCalled,
          started, replied, hung, sdNil, startedAtSd, cancelled, serveRet, lfailed, sdCalled, wrote
vars == <<l, cfg, added, removed, sclosed, accepted, winLo, winHi, rejected, rejClosed, closeCalled,
          started, replied, hung, sdNil, startedAtSd, cancelled, serveRet, lfailed, sdCalled, wrote>>

NoCfg == [onAccept |-> FALSE, onClose |-> FALSE]
Live == added \ removed
LiveHi == Cardinality(Live)
LiveLo == Cardinality(Live \ sclosed)
Min(a, b) == IF a < b THEN a ELSE b
Max(a, b) == IF a > b THEN a ELSE b

\* beyond the listed properties (check E05, VERIF_EXTRA=1)
Extra == IOEnv.VERIF_EXTRA = "1"

StillOpen(e) == {e.open[i] : i \in DOMAIN e.open}
J_end(e) ==
    IF rejected \ rejClosed # {} THEN "rejected-connection-not-closed"
    \* (a connection that is still open when the scenario ends - possible after a Shutdown that gave up - is still live)
    ELSE IF cfg.onClose /\ ((added \cup removed) \ closeCalled) \ StillOpen(e) # {} THEN "close-callback-missing-for-a-served-connection"
    ELSE IF (added \ removed) \ StillOpen(e) # {} THEN "served-connection-never-removed-from-the-live-connection-accounting"
    \* (a listener failure is outside C17's quantification: the serve call has then returned the listener's error before Shutdown came)
    ELSE IF sdNil /\ serveRet # "closed" /\ ~lfailed THEN "serve-did-not-return-the-server-closed-error-after-shutdown"
    ELSE IF sdNil /\ e.dialAfter THEN "listener-still-accepting-after-shutdown"
    ELSE IF sdNil /\ {e.open[i] : i \in DOMAIN e.open} \cap accepted # {} THEN "connection-left-open-after-graceful-shutdown"
    ELSE IF sdNil /\ (startedAtSd \ replied) \ hung # {} THEN "request-whose-handler-had-started-got-no-reply-although-shutdown-succeeded"
    ELSE IF cancelled /\ ~e.served THEN "serve-did-not-return-after-context-cancel"
    ELSE IF Extra /\ lfailed /\ ~e.served THEN "extra:serve-did-not-return-after-the-listener-failed"
    ELSE "ok"

Judge(e) ==
    CASE e.ev = "cb.accept" ->
            IF ~(winLo + 1 <= e.arg /\ e.arg <= winHi + 1) THEN "accept-callback-count-is-not-the-number-of-live-connections" ELSE "ok"
      [] e.ev = "hook" /\ e.point = "track.add" ->
            IF e.conn \in rejected THEN "rejected-connection-is-served" ELSE "ok"
      [] e.ev = "cb.close" ->
            IF e.conn \in closeCalled THEN "close-callback-called-twice-for-a-connection"
            ELSE IF e.conn \notin added THEN "close-callback-for-a-connection-that-was-not-served"
            ELSE "ok"
      [] e.ev = "crash" -> "server-process-crashed"
      [] e.ev = "race" -> "data-race-reported-by-the-race-detector"
      [] e.ev = "shutdown.stuck" -> "shutdown-did-not-return"
      \* "after a graceful shutdown returns successfully ... any request whose handler had started has received its
      \* complete reply": judged at the moment Shutdown returns, by the server's own write of the reply
      [] e.ev = "shutdown.ret" ->
            IF e.err = "nil" /\ (started \ wrote) \ hung # {} THEN "shutdown-returned-success-while-a-started-request-was-still-unanswered" ELSE "ok"
      \* E05 (ServerLifecycle!ClosedOnlyWhenAsked): "server closed" answers Shutdown or cancellation only
      [] e.ev = "serve.ret" ->
            IF Extra /\ e.err = "closed" /\ lfailed /\ ~cancelled /\ ~sdCalled THEN "extra:listener-failure-reported-as-server-closed" ELSE "ok"
      [] e.ev = "end" -> J_end(e)
      [] OTHER -> "ok"

Init ==
    /\ l = 1 /\ cfg = NoCfg /\ added = {} /\ removed = {} /\ sclosed = {} /\ accepted = {} /\ winLo = 0 /\ winHi = 0
    /\ rejected = {} /\ rejClosed = {} /\ closeCalled = {} /\ started = {} /\ replied = {} /\ hung = {}
    /\ sdNil = FALSE /\ startedAtSd = {} /\ cancelled = FALSE /\ serveRet = "none" /\ lfailed = FALSE /\ sdCalled = FALSE /\ wrote = {}

Upd(e) ==
    CASE e.ev = "reset" ->
            /\ cfg' = e /\ added' = {} /\ removed' = {} /\ sclosed' = {} /\ accepted' = {} /\ winLo' = 0 /\ winHi' = 0
            /\ rejected' = {} /\ rejClosed' = {} /\ closeCalled' = {} /\ started' = {} /\ replied' = {} /\ hung' = {}
            /\ sdNil' = FALSE /\ startedAtSd' = {} /\ cancelled' = FALSE /\ serveRet' = "none" /\ lfailed' = FALSE /\ sdCalled' = FALSE /\ wrote' = {}
      [] e.ev = "hook" ->
            LET a2 == IF e.point = "track.add" THEN added \cup {e.conn} ELSE added
                r2 == IF e.point = "track.remove" THEN removed \cup {e.conn} ELSE removed
                c2 == IF e.point \in {"conn.closed", "sd.close"} THEN sclosed \cup {e.conn} ELSE sclosed
                \* (a connection whose close callback has been called is live by no reading of the statement)
                hi == Cardinality((a2 \ r2) \ closeCalled)
                lo == Cardinality(((a2 \ r2) \ c2) \ closeCalled)
            IN /\ added' = a2 /\ removed' = r2 /\ sclosed' = c2
               /\ accepted' = IF e.point = "accept.ret" THEN accepted \cup {e.conn} ELSE accepted
               /\ rejClosed' = IF e.point = "accept.rejected" THEN rejClosed \cup {e.conn} ELSE rejClosed
               /\ IF e.point = "accept.ret" THEN winLo' = lo /\ winHi' = hi
                  ELSE winLo' = Min(winLo, lo) /\ winHi' = Max(winHi, hi)
               \* (the reply of this connection's request has been written - or the write failed, e.g. the client is gone)
               /\ wrote' = IF e.point \in {"conn.wrote", "conn.writefail"} THEN wrote \cup {e.conn} ELSE wrote
               /\ UNCHANGED <<cfg, rejected, closeCalled, started, replied, hung, sdNil, startedAtSd, cancelled, serveRet, lfailed, sdCalled>>
      [] e.ev = "cb.accept" ->
            /\ rejected' = IF e.decision = "reject" THEN rejected \cup {e.conn} ELSE rejected
            /\ UNCHANGED <<cfg, added, removed, sclosed, accepted, winLo, winHi, rejClosed, closeCalled, started, replied, hung, sdNil, startedAtSd, cancelled, serveRet, lfailed, sdCalled, wrote>>
      [] e.ev = "cb.close" ->
            /\ closeCalled' = closeCalled \cup {e.conn}
            /\ winLo' = Min(winLo, Cardinality(((added \ removed) \ sclosed) \ (closeCalled \cup {e.conn})))
            /\ UNCHANGED <<cfg, added, removed, sclosed, accepted, winHi, rejected, rejClosed, started, replied, hung, sdNil, startedAtSd, cancelled, serveRet, lfailed, sdCalled, wrote>>
      [] e.ev = "handler.start" ->
            /\ started' = started \cup {e.conn}
            /\ UNCHANGED <<cfg, added, removed, sclosed, accepted, winLo, winHi, rejected, rejClosed, closeCalled, replied, hung, sdNil, startedAtSd, cancelled, serveRet, lfailed, sdCalled, wrote>>
      [] e.ev = "cli.reply" ->
            /\ replied' = replied \cup {e.conn}
            /\ UNCHANGED <<cfg, added, removed, sclosed, accepted, winLo, winHi, rejected, rejClosed, closeCalled, started, hung, sdNil, startedAtSd, cancelled, serveRet, lfailed, sdCalled, wrote>>
      [] e.ev = "op" ->
            /\ hung' = IF e.a = "hangup" THEN hung \cup {e.p} ELSE hung
            /\ cancelled' = (cancelled \/ e.a = "cancel")
            /\ lfailed' = (lfailed \/ e.a = "lfail") /\ sdCalled' = (sdCalled \/ e.a \in {"shutdown", "teardown"})   \* (teardown: the driver ends the scenario by cancelling)
            /\ UNCHANGED <<cfg, added, removed, sclosed, accepted, winLo, winHi, rejected, rejClosed, closeCalled, started, replied, sdNil, startedAtSd, serveRet, wrote>>
      [] e.ev = "shutdown.ret" ->
            /\ sdNil' = (e.err = "nil") /\ startedAtSd' = IF e.err = "nil" THEN started ELSE {}
            /\ UNCHANGED <<cfg, added, removed, sclosed, accepted, winLo, winHi, rejected, rejClosed, closeCalled, started, replied, hung, cancelled, serveRet, lfailed, sdCalled, wrote>>
      [] e.ev = "serve.ret" ->
            /\ serveRet' = e.err
            /\ UNCHANGED <<cfg, added, removed, sclosed, accepted, winLo, winHi, rejected, rejClosed, closeCalled, started, replied, hung, sdNil, startedAtSd, cancelled, lfailed, sdCalled, wrote>>
      [] OTHER -> UNCHANGED <<cfg, added, removed, sclosed, accepted, winLo, winHi, rejected, rejClosed, closeCalled, started, replied, hung, sdNil, startedAtSd, cancelled, serveRet, lfailed, sdCalled, wrote>>

Next ==
    /\ l <= Len(Trace)
    /\ LET e == Trace[l] v == Judge(e) IN
       /\ IF v = "ok" THEN TRUE ELSE PrintT(<<"VERDICT", l, v>>)
       /\ Upd(e)
    /\ l' = l + 1
Spec == Init /\ [][Next]_vars
AllConsumed == TLCGet("stats").diameter - 1 = Len(Trace)
=============================================================================
