------------------------------ MODULE Gen_Client ------------------------------
(***************************************************************************)
(* Case generation for the client family.  A case is one exchange: which   *)
(* client, the request's constructor arguments, the reply bytes R the      *)
(* scripted transport holds (built by the SPECIFICATION), the script that  *)
(* says how R is cut into reads / where empty reads, EOF, I/O errors,      *)
(* cancellation happen, and whether hooks are installed.                   *)
(*   c07: benign scripts (all compositions of short replies, all single    *)
(*        and selected double cuts of long ones, with/without empty reads) *)
(*   c08: fault scripts (every prefix x fault kind)                        *)
(*   c12: corrupted RTU replies (bit flips, substitutions, truncation,     *)
(*        extension), whole and split at byte 5                            *)
(*   c19: hook pairs (same script without and with hooks)                  *)
(***************************************************************************)
EXTENDS ClientExchange, TLC, Json, FiniteSets, FiniteSetsExt, SequencesExt
CONSTANTS Set, Tier,
          Part, Parts   \* this run generates the cases whose partition key is Part modulo Parts (parallel generation)
InPart(k) == k % Parts = Part
Thorough == Tier = "thorough"
VARIABLE c

Args(fc, unit, addr, qty, data, coils, waddr, tid) ==
    [fc |-> fc, unit |-> unit, addr |-> addr, qty |-> qty, data |-> data, coils |-> coils, waddr |-> waddr, tid |-> tid]

Ramp(n) == [i \in 1..n |-> (i * 29 + 7) % 256]
Bits(n) == [i \in 1..n |-> ((i * 5) \div 3) % 2]

\* request shapes: size class "s" smallest, "m" middle, "l" largest legal
ReqShapes(sz) ==
    LET q1 == CASE sz = "s" -> 1 [] sz = "m" -> 19 [] sz = "l" -> 2000
        q3 == CASE sz = "s" -> 1 [] sz = "m" -> 3  [] sz = "l" -> 125
    IN {Args(1, 17, 100, q1, <<>>, <<>>, 0, 513), Args(2, 1, 0, q1, <<>>, <<>>, 0, 1),
        Args(3, 1, 65535 - q3, q3, <<>>, <<>>, 0, 65535), Args(4, 255, 7, q3, <<>>, <<>>, 0, 258),
        Args(5, 1, 3, 1, <<>>, <<>>, 0, 7), Args(6, 9, 4, 0, <<18, 52>>, <<>>, 0, 8),
        Args(15, 1, 20, 0, <<>>, Bits(IF sz = "l" THEN 1968 ELSE 10), 0, 9),
        Args(16, 1, 30, 0, Ramp(IF sz = "l" THEN 246 ELSE 4), <<>>, 0, 10),
        Args(17, 3, 0, 0, <<>>, <<>>, 0, 11),
        Args(23, 1, 40, q3, <<1, 2>>, <<>>, 50, 12)}

\* the normal reply of a conforming device (content = deterministic patterns)
ReplyTo(fr, a, v) ==
    LET r == ReqOfArgs(a) IN
    RespADU(fr, a.tid,
        CASE r.fc \in {1, 2}  -> Resp(r.fc, r.unit, 0, 0, PackCoils(Bits(r.qty)), <<>>, 0, <<>>)
          [] r.fc \in {3, 4, 23} -> Resp(r.fc, r.unit, 0, 0, Ramp(2 * r.qty), <<>>, 0, <<>>)
          [] r.fc = 5         -> Resp(5, r.unit, r.addr, r.qty, <<>>, <<>>, 0, <<>>)
          [] r.fc = 6         -> Resp(6, r.unit, r.addr, 0, r.data, <<>>, 0, <<>>)
          [] r.fc \in {15, 16} -> Resp(r.fc, r.unit, r.addr, r.qty, <<>>, <<>>, 0, <<>>)
          [] r.fc = 17        -> Resp(17, r.unit, 0, 0, <<>>, Ramp(v[1]), 255, Ramp(v[2])))
ExcReplyTo(fr, a, code) == ExcADU(fr, a.tid, a.unit, a.fc, code)

Chunk(n) == [k |-> "chunk", n |-> n, e |-> ""]
Empty(e) == [k |-> "empty", n |-> 0, e |-> e]
Term(k)  == [k |-> k, n |-> 0, e |-> ""]

\* chunk lengths for a set of cut positions (cuts \subseteq 1..L-1)
Lens(L, cuts) ==
    LET cs == SetToSortSeq(cuts \cup {L}, <) IN
    [i \in 1..Len(cs) |-> IF i = 1 THEN cs[1] ELSE cs[i] - cs[i - 1]]
ChunkScript(L, cuts) == LET ls == Lens(L, cuts) IN [i \in 1..Len(ls) |-> Chunk(ls[i])]
\* the same with an empty timed-out read before every chunk and two after the first
RECURSIVE WithEmpties(_, _, _)
WithEmpties(s, e, i) == IF i > Len(s) THEN <<>> ELSE <<Empty(e), s[i]>> \o (IF i = 1 THEN <<Empty(e)>> ELSE <<>>) \o WithEmpties(s, e, i + 1)

EmptyKinds(cl) == IF cl = "serial" THEN {"deadline", "zero", "eof"} ELSE {"deadline"}

AllCutsMax == IF Thorough THEN 13 ELSE 9
CutSets(L) ==
    IF L <= AllCutsMax THEN SUBSET (1..(L - 1))
    ELSE IF L <= 40 THEN {{}} \cup {{a} : a \in 1..(L - 1)} \cup
                         (IF L <= 16 \/ Thorough THEN {{a, b} : a, b \in 1..(L - 1)} ELSE {{a, L - 1} : a \in 1..(L - 2)})
    ELSE {{}} \cup {{a} : a \in (IF Thorough THEN 1..(L - 1)
                                  ELSE (1..10) \cup ((L - 10)..(L - 1)) \cup {k \in 1..(L - 1) : k % 32 = 0})}

Clients == {"tcp", "rtu", "serial"}

Exch(cl, a, R, script, fault, hooks, pair) ==
    [op |-> "exch", client |-> cl, req |-> a, reply |-> R, script |-> script, fault |-> fault, hooks |-> hooks, pair |-> pair]

BenignOver(cl, a, R, cutsets) ==
    UNION {{Exch(cl, a, R, ChunkScript(Len(R), cuts), "none", 0, 0)} \cup
           {Exch(cl, a, R, WithEmpties(ChunkScript(Len(R), cuts), e, 1), "none", 0, 0) :
                e \in (IF Cardinality(cuts) <= 2 \/ Thorough THEN EmptyKinds(cl) ELSE {"deadline"})} :
           cuts \in cutsets}
\* the last bytes of the reply arrive in the same read as the end-of-stream indication (n > 0 together with EOF)
LastEOF(sc) == [i \in 1..Len(sc) |-> IF i = Len(sc) THEN [sc[i] EXCEPT !.k = "chunkeof"] ELSE sc[i]]
\* a fragment that is not the last arrives together with the transport's timeout indication (n > 0 and a deadline error)
FirstDL(sc) == [i \in 1..Len(sc) |-> IF i = 1 /\ Len(sc) > 1 THEN [sc[i] EXCEPT !.k = "chunkdl"] ELSE sc[i]]
Benign(cl, a, R) ==
    BenignOver(cl, a, R, CutSets(Len(R)))
    \cup {Exch(cl, a, R, FirstDL(ChunkScript(Len(R), cuts)), "none", 0, 0) : cuts \in {x \in CutSets(Len(R)) : Cardinality(x) = 1}}
    \cup {Exch(cl, a, R, LastEOF(ChunkScript(Len(R), cuts)), "none", 0, 0) : cuts \in {x \in CutSets(Len(R)) : Cardinality(x) <= 1}}
\* for the many residue cases: all cut sets only of the shorter replies (measured: with all cut sets up to 13 bytes the
\* thorough generator, then a single process, did not finish in 30 minutes)
CutSetsR(L) == IF L <= (IF Thorough THEN 12 ELSE 9) THEN SUBSET (1..(L - 1)) ELSE {{}} \cup {{a} : a \in 1..(L - 1)} \cup {{a, b} : a, b \in 1..(L - 1)}

F17Variants == IF Thorough THEN {<<1, 0>>, <<1, 1>>, <<2, 2>>, <<5, 4>>} ELSE {<<1, 0>>, <<2, 2>>}

\* benign histories on ONE client: replies with different content; what an earlier call returned must stay what it was
HistArgs(fc, k) == Args(fc, 1, 10 * k, 9, <<>>, <<>>, 0, 600 + k)
HistReply(cl, fc, k) ==
    RespADU(FramingOf(cl), 600 + k, Resp(fc, 1, 0, 0, IF fc = 1 THEN <<(37 * k) % 256, k % 2>> ELSE [i \in 1..18 |-> (i * k * 7) % 256], <<>>, 0, <<>>))
HistCases(cl) ==
    {[op |-> "seq", seq |-> [k \in 1..3 |-> Exch(cl, HistArgs(fc, k), HistReply(cl, fc, k),
                                                   <<Chunk(4), Chunk(Len(HistReply(cl, fc, k)) - 4)>>, "none", 0, 0)]] : fc \in {1, 3}}

\* clients created with a zero-valued configuration: the library's default timeouts must let a complete reply through
\* (C07) and end a stalled exchange with the client error (C08)
DefArgs == Args(3, 1, 10, 2, <<>>, <<>>, 0, 4660)
WithDefaults(x) == [op |-> "exch", client |-> x.client, req |-> x.req, reply |-> x.reply, script |-> x.script, fault |-> x.fault,
                    hooks |-> x.hooks, pair |-> x.pair, defaults |-> 1]
DefaultBenign(z) ==
    {WithDefaults(Exch(cl, DefArgs, ReplyTo(FramingOf(cl), DefArgs, <<1, 0>>), WithEmpties(ChunkScript(Len(ReplyTo(FramingOf(cl), DefArgs, <<1, 0>>)), {3, 7}), "deadline", 1), "none", 0, 0)) :
        cl \in Clients \cup {"gendef"}}
DefaultStall(z) ==
    {WithDefaults(Exch(cl, DefArgs, ReplyTo(FramingOf(cl), DefArgs, <<1, 0>>), <<Chunk(3)>>, "stall", 0, 0)) : cl \in Clients}

\* a slow peer: the request is taken in 300 ms, the reply begins 250 ms later; the read timeout (400 ms) is for READING
\* the reply - the time the write took does not count against it ("never times out on a complete, correct reply")
SlowWrite(z) ==
    {LET a == Args(3, 1, 10, 2, <<>>, <<>>, 0, 4660) R == ReplyTo(FramingOf(cl), a, <<1, 0>>)
     IN Exch(cl, a, R, <<[k |-> "wslow", n |-> 300, e |-> ""], Chunk(3), Chunk(Len(R) - 3)>>, "none", 0, 0) : cl \in Clients}
    \* a slow device and a client whose write timeout (100 ms) is shorter than its read timeout (400 ms): the reply begins
    \* after 250 ms - the read timeout is the one that is about replies
    \cup {LET a == Args(3, 1, 10, 2, <<>>, <<>>, 0, 4660) R == ReplyTo(FramingOf(cl), a, <<1, 0>>)
          IN Exch(cl, a, R, <<[k |-> "rslow", n |-> 300, e |-> ""], Chunk(3), Chunk(Len(R) - 3)>>, "none", 0, 0) : cl \in Clients \ {"serial"}}

\* a reply with a proper prefix that is itself "bytes followed by their CRC" (the FC16 reply whose address field equals
\* the CRC of <<unit, 16>>), cut exactly there, with a quiet read in between: the silence does not end the frame
PrefixCRC(z) ==
    LET t == CRCTrailer(<<1, 16>>)
        a == Args(16, 1, t[1] * 256 + t[2], 2, <<1, 2, 3, 4>>, <<>>, 0, 77)
    IN UNION {{LET R == ReplyTo("rtu", a, <<1, 0>>) IN Exch(cl, a, R, <<Chunk(4), Empty(e), Chunk(Len(R) - 4)>>, "none", 0, 0) :
                  e \in EmptyKinds(cl)} : cl \in {"rtu", "serial"}}
\* the RTU-over-network client built with only ParseResponseFunc supplied by the caller ("rtuparse"): still an RTU client
ParseOnly(z) ==
    LET a == Args(3, 1, 10, 2, <<>>, <<>>, 0, 0) IN
    UNION {Benign("rtuparse", a, R) : R \in {ReplyTo("rtu", a, <<1, 0>>), ExcReplyTo("rtu", a, 2), ExcReplyTo("rtu", a, 11)}}
C07Cases(z) ==
    (IF Part = 0 THEN UNION {HistCases(cl) : cl \in Clients} \cup DefaultBenign(0) \cup SlowWrite(0) \cup PrefixCRC(0) \cup ParseOnly(0) ELSE {}) \cup
    UNION {UNION {Benign(cl, a, ReplyTo(FramingOf(cl), a, v)) : v \in (IF a.fc = 17 THEN F17Variants ELSE {<<1, 0>>})} :
              cl \in Clients, a \in {x \in ReqShapes("s") : InPart(x.fc + 3)}}
    \cup UNION {Benign(cl, a, ReplyTo(FramingOf(cl), a, <<2, 2>>)) : cl \in Clients, a \in {x \in ReqShapes("m") : x.fc \in {1, 2, 3, 4, 23} /\ InPart(x.fc)}}
    \cup UNION {Benign(cl, a, ReplyTo(FramingOf(cl), a, <<100, 100>>)) : cl \in Clients,
                 a \in {x \in ReqShapes("l") : x.fc \in (IF Thorough THEN {1, 3, 17, 23} ELSE {3, 17}) /\ InPart(x.fc + 1)}}
    \* the longest reply an ADU can hold (260 bytes TCP / 256 RTU): a server-id reply of 251 payload bytes
    \cup UNION {Benign(cl, a, ReplyTo(FramingOf(cl), a, <<125, 125>>)) : cl \in Clients, a \in {x \in ReqShapes("l") : x.fc = 17 /\ InPart(2)}}
    \* every residue of the coil quantity modulo 8 (the reply's byte count is a ceiling division)
    \cup UNION {LET ra == Args(fc, 1, 5, q, <<>>, <<>>, 0, 300 + q) rr == ReplyTo(FramingOf(cl), ra, <<1, 0>>) IN BenignOver(cl, ra, rr, CutSetsR(Len(rr))) :
                 cl \in (IF Thorough THEN Clients ELSE {"tcp", "rtu"}), fc \in {1, 2}, q \in {x \in (IF Thorough THEN 2..33 ELSE 2..17) : InPart(x)}}
    \cup UNION {Benign(cl, a, ExcReplyTo(FramingOf(cl), a, code)) : cl \in Clients, a \in {x \in ReqShapes("s") : InPart(x.fc)}, code \in {2}}
    \cup UNION {Benign(cl, a, ExcReplyTo(FramingOf(cl), a, code)) : cl \in Clients, a \in {x \in ReqShapes("l") : x.fc \in {3, 16} /\ InPart(x.fc)}, code \in {1, 4, 11}}

----------------------------------------------------------------------------
(* C08: faults after every prefix *)
PrefixLens(L) == IF L <= 14 \/ Thorough THEN 0..(L - 1) ELSE {0, 1, 2, 3, 4, 5, 6, 7, 8, 9, 10, L \div 2, L - 2, L - 1}
PrefixScript(p, cutAt) == IF p = 0 THEN <<>> ELSE IF cutAt > 0 /\ cutAt < p THEN <<Chunk(cutAt), Chunk(p - cutAt)>> ELSE <<Chunk(p)>>

Pause(ms) == [k |-> "pause", n |-> ms, e |-> ""]
RECURSIVE Trickle(_, _)
Trickle(k, ms) == IF k = 0 THEN <<>> ELSE <<Chunk(1), Pause(ms)>> \o Trickle(k - 1, ms)
FaultCases(cl, a, R) ==
    LET L == Len(R) IN
    UNION {{Exch(cl, a, R, PrefixScript(p, 0), "stall", 0, 0),
            Exch(cl, a, R, PrefixScript(p, 0) \o <<Term("eof")>>, "eof", 0, 0),
            Exch(cl, a, R, PrefixScript(p, 0) \o <<Term("ioerr")>>, "ioerr", 0, 0),
            Exch(cl, a, R, PrefixScript(p, 0) \o <<Term("cancel")>>, "cancel", 0, 0),
            Exch(cl, a, R, PrefixScript(p, 1) \o <<Empty("deadline"), Term("ioerr")>>, "ioerr", 0, 0)} : p \in PrefixLens(L)}
    \* a peer that trickles: 14 single bytes, one every 150 ms (each gap shorter than the read timeout), then silence - the
    \* read timeout is a TOTAL, the call ends when it has passed and not 2 s later
    \cup (IF L >= 16 THEN {Exch(cl, a, R, Trickle(14, 150), "stall", 0, 0)} ELSE {})
    \* the caller's context carries a deadline of its own, shorter than the read timeout, and the peer stalls
    \cup {Exch(cl, a, R, PrefixScript(p, 0), "ctxdeadline", 0, 0) : p \in {0, 1, L \div 2} \cap (0..(L - 1))}
    \cup {Exch(cl, a, R, <<Term("writeerr")>>, "writeerr", 0, 0),
          Exch(cl, a, R, <<>>, "notconnected", 0, 0),
          Exch(cl, a, R, <<>>, "nilreq", 0, 0)}
    \* the caller cancels before anything has been read while the complete reply is there for the taking
    \cup {Exch(cl, a, R, <<Chunk(L)>>, "precancel", 0, 0), Exch(cl, a, R, <<Chunk(L)>>, "cancelonwrite", 0, 0)}
    \* the only Connect failed although the dial function produced a connection object (network clients)
    \cup (IF cl = "serial" THEN {} ELSE {Exch(cl, a, R, <<Chunk(Len(R))>>, "connectfailed", 0, 0), Exch(cl, a, R, <<>>, "connectfailednil", 0, 0),
                                          Exch(cl, a, R, <<>>, "writestall", 0, 0)})

\* oversize: junk that never forms a complete reply before the ADU limit is crossed
Junk(n) == [i \in 1..n |-> 0]
MaxFor(cl) == IF cl = "tcp" THEN MaxTCPADU ELSE MaxRTUADU
OversizeCases(cl, a) ==
    LET m == MaxFor(cl)
        big == ReplyTo(FramingOf(cl), a, <<1, 0>>)
    IN {Exch(cl, a, SubSeq(big, 1, Len(big) - 1) \o Junk(m + 10 - (Len(big) - 1)), sc, "oversize", 0, 0) :
            sc \in {<<Chunk(m + 1)>>, <<Chunk(m + 10)>>, <<Chunk(Len(big) - 1), Chunk(m + 2 - Len(big))>>,
                    <<Chunk(100), Empty("deadline"), Chunk(Len(big) - 101), Chunk(m + 10 - (Len(big) - 1))>>}}

(* histories of request calls on ONE client instance: a fault, then the same client must still answer *)
SeqArgs == Args(3, 1, 10, 2, <<>>, <<>>, 0, 4660)
SeqCases(cl) ==
    LET a == SeqArgs
        R == ReplyTo(FramingOf(cl), a, <<1, 0>>)
        X == ExcReplyTo(FramingOf(cl), a, 2)
        ok == Exch(cl, a, R, <<Chunk(3), Chunk(Len(R) - 3)>>, "none", 0, 0)
        nc == Exch(cl, a, R, <<>>, "notconnected", 0, 0)
        firsts == {Exch(cl, a, R, <<>>, "nilreq", 0, 0),
                   Exch(cl, a, R, <<Chunk(3)>>, "stall", 0, 0),
                   Exch(cl, a, R, <<Chunk(3), Term("ioerr")>>, "ioerr", 0, 0),
                   Exch(cl, a, R, <<Term("writeerr")>>, "writeerr", 0, 0),
                   Exch(cl, a, R, <<Chunk(3), Term("cancel")>>, "cancel", 0, 0),
                   Exch(cl, a, X, <<Chunk(Len(X))>>, "none", 0, 0),
                   \* the caller had given up before the call, or gives up while the request is being written
                   Exch(cl, a, R, <<Chunk(Len(R))>>, "precancel", 0, 0),
                   Exch(cl, a, R, <<Chunk(Len(R))>>, "cancelonwrite", 0, 0),
                   ok}
    IN {[op |-> "seq", seq |-> <<f, ok, ok>>] : f \in firsts}
       \cup {[op |-> "seq", seq |-> <<f, g, ok>>] : f \in firsts, g \in firsts}
       \cup (IF cl = "serial" THEN {[op |-> "seq", seq |-> <<nc, nc, nc>>]}
             ELSE {[op |-> "seq", seq |-> <<nc, nc, ok, ok>>], [op |-> "seq", seq |-> <<nc, ok, ok>>]})

C08Cases(z) ==
    UNION {SeqCases(cl) : cl \in Clients} \cup DefaultStall(0) \cup
    UNION {FaultCases(cl, a, ReplyTo(FramingOf(cl), a, <<2, 2>>)) : cl \in Clients, a \in ReqShapes("s")}
    \cup UNION {FaultCases(cl, a, ReplyTo(FramingOf(cl), a, <<100, 100>>)) : cl \in Clients, a \in {x \in ReqShapes("l") : x.fc \in {1, 3}}}
    \cup UNION {FaultCases(cl, a, ExcReplyTo(FramingOf(cl), a, 2)) : cl \in Clients, a \in {x \in ReqShapes("s") : x.fc \in {3, 17, 23}}}
    \cup UNION {OversizeCases(cl, a) : cl \in Clients, a \in {x \in ReqShapes("l") : x.fc \in {1, 3, 23}}}

----------------------------------------------------------------------------
(* C12: corruptions of RTU replies *)
RECURSIVE P2(_)
P2(n) == IF n = 0 THEN 1 ELSE 2 * P2(n - 1)
FlipBit(f, i, b) == [f EXCEPT ![i] = IF (f[i] \div P2(b)) % 2 = 1 THEN f[i] - P2(b) ELSE f[i] + P2(b)]
Corruptions(R) ==
    {FlipBit(R, i, b) : i \in 1..Len(R), b \in 0..7}
    \cup UNION {{[R EXCEPT ![i] = v] : v \in {0, 255, (R[i] + 128) % 256}} : i \in 1..Len(R)}
    \cup {SubSeq(R, 1, n) : n \in 1..(Len(R) - 1)}
    \cup {R \o x : x \in {<<0>>, <<255, 255>>, <<R[Len(R) - 1], R[Len(R)]>>}}
    \* the trailer blanked (a gateway that does not fill in the CRC), all ones, 
    \cup {[R EXCEPT ![Len(R) - 1] = v, ![Len(R)] = v] : v \in {0, 255}}
    \* the two trailer bytes exchanged (a CRC sent high byte first), and neighbouring payload bytes exchanged
    \cup {[R EXCEPT ![Len(R) - 1] = R[Len(R)], ![Len(R)] = R[Len(R) - 1]]}
    \cup {[R EXCEPT ![i] = R[i + 1], ![i + 1] = R[i]] : i \in 1..(Len(R) - 2)}
    \cup {[j \in 1..Len(R) |-> IF j = i THEN 255 - R[j] ELSE IF j = Len(R) THEN (R[j] + 1) % 256 ELSE R[j]] : i \in 1..(Len(R) - 1)}
\* thorough: every value of each trailer byte, delivered in one read
TrailerSweep(cl, a, R) ==
    IF Thorough THEN UNION {{Exch(cl, a, [R EXCEPT ![i] = v], <<Chunk(Len(R))>>, "none", 0, 0) : v \in (0..255) \ {R[i]}} : i \in {Len(R) - 1, Len(R)}}
    ELSE {}
CorruptCases(cl, a, R) ==
    TrailerSweep(cl, a, R) \cup
    UNION {{Exch(cl, a, Rc, <<Chunk(Len(Rc))>>, "none", 0, 0)}
           \cup (IF Len(Rc) > 5 THEN {Exch(cl, a, Rc, <<Chunk(5), Chunk(Len(Rc) - 5)>>, "none", 0, 0)} ELSE {})
           \cup (IF Len(Rc) > 2 THEN {Exch(cl, a, Rc, <<Chunk(2), Empty("deadline"), Chunk(Len(Rc) - 2)>>, "none", 0, 0)} ELSE {}) :
           Rc \in Corruptions(R) \ {R}}
ExcCodesStd == {1, 2, 3, 4, 5, 6, 8, 10, 11}
\* a CRC-valid five byte exception frame planted inside a reply whose own trailer stays inconsistent, and
\* delivered as a read of its own: no PART of what was received may be taken for the reply
BadTrailer(f) == CRCTrailer(SubSeq(f, 1, Len(f) - 2)) # SubSeq(f, Len(f) - 1, Len(f))
EmbeddedCases(cl, a, R) ==
    LET L == Len(R) IN
    {Exch(cl, a, e[1], ChunkScript(L, {e[2] - 1, e[2] + 4} \cap (1..(L - 1))), "none", 0, 0) :
        e \in {x \in {<<[j \in 1..L |-> IF j \in p..(p + 4) THEN ExcReplyTo("rtu", a, code)[j - p + 1] ELSE R[j]], p>> :
                        p \in 2..(L - 4), code \in {1, 2, 4}} : BadTrailer(x[1])}}
\* the longest reply an RTU ADU can hold (256 bytes, a server-id reply), followed by bytes that make its trailer inconsistent
MaxArgs == Args(17, 3, 0, 0, <<>>, <<>>, 0, 11)
ExtendedMax(cl) ==
    LET R == ReplyTo("rtu", MaxArgs, <<125, 125>>) IN
    {Exch(cl, MaxArgs, R \o x, sc, "none", 0, 0) :
        x \in {<<90>>, <<222, 173>>, <<1, 2, 3, 4>>},
        sc \in {<<Chunk(Len(R) + 4)>>, <<Chunk(100), Chunk(Len(R) + 4 - 100)>>}}

C12Cases(z) ==
    UNION {CorruptCases(cl, a, ReplyTo("rtu", a, <<2, 2>>)) : cl \in {"rtu", "serial"}, a \in ReqShapes("s") \cup (IF Thorough THEN ReqShapes("m") ELSE {})}
    \cup UNION {EmbeddedCases(cl, a, ReplyTo("rtu", a, <<6, 6>>)) : cl \in {"rtu", "serial"}, a \in ReqShapes("m")}
    \cup UNION {ExtendedMax(cl) : cl \in {"rtu", "serial"}}
    \cup UNION {CorruptCases(cl, a, ExcReplyTo("rtu", a, code)) : cl \in {"rtu", "serial"},
                 a \in {x \in ReqShapes("s") : x.fc \in {3, 16, 17}}, code \in (IF Thorough THEN ExcCodesStd ELSE {2, 11})}

----------------------------------------------------------------------------
(* C19: a script without hooks followed by the same script with hooks *)
Pair(x) == <<x, [x EXCEPT !.hooks = 1, !.pair = 1]>>
HookBase(z) ==
    {x \in {y \in C07Cases(0) : y.op = "exch"} : Len(x.script) <= (IF Thorough THEN 6 ELSE 4) /\ (x.req.fc \in {1, 3, 5, 16, 17, 23} \/ Thorough)}
    \cup (IF Part = 0 THEN {x \in {y \in C08Cases(0) : y.op = "exch"} : x.req.fc \in {3, 5, 17} \/ Thorough} ELSE {})
\* the configurable client (parser observable): benign scripts, EOF before / at completion, I/O error
GenArgs == Args(3, 1, 10, 2, <<>>, <<>>, 0, 4660)
GenBase(z) ==
    LET R == ReplyTo("tcp", GenArgs, <<1, 0>>) L == Len(R) IN
    {Exch("tcpgen", GenArgs, R, scf[1], scf[2], 0, 0) :
        scf \in {<<ChunkScript(L, {}), "none">>, <<ChunkScript(L, {3, 9}), "none">>, <<WithEmpties(ChunkScript(L, {5}), "deadline", 1), "none">>}
                \cup {<<PrefixScript(p, 0) \o <<Term("eof")>>, "eof">> : p \in 0..(L - 1)}
                \cup {<<ChunkScript(L, {4}) \o <<Term("eof")>>, "none">>}
                \cup {<<PrefixScript(p, 2) \o <<Term("ioerr")>>, "ioerr">> : p \in {0, 3, 8}}}
C19Cases(z) == {[op |-> "pair", a |-> x, b |-> [x EXCEPT !.hooks = 1, !.pair = 1]] : x \in HookBase(0) \cup (IF Part = 0 THEN GenBase(0) ELSE {})}
               \cup (IF Part # 0 THEN {} ELSE
                     {[op |-> "seq", seq |-> [i \in 1..Len(q.seq) |-> [q.seq[i] EXCEPT !.hooks = 1]]] :
                        q \in {y \in C08Cases(0) : y.op = "seq"} \cup UNION {HistCases(cl) : cl \in Clients}})

CaseSet(z) == CASE Set = "c07" -> C07Cases(0) [] Set = "c08" -> C08Cases(0) [] Set = "c12" -> C12Cases(0) [] Set = "c19" -> C19Cases(0)

Init == c \in CaseSet(0)
Next == UNCHANGED c
\* the replies the generator builds are what the exchange specification calls proper replies
SelfConsistent ==
    Set = "c07" /\ c.op = "exch" /\ c.fault = "none" =>
        LET fr == FramingOf(c.client) IN ProperNormal(fr, ReqOfArgs(c.req), c.reply) \/ ProperException(fr, c.reply)
Emit == PrintT(<<"CASE", ToJson(c)>>)
=============================================================================
