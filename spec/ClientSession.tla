---------------------------- MODULE ClientSession ----------------------------
(***************************************************************************)
(* Beyond the listed properties: a SEQUENCE of request calls on one        *)
(* connection when replies can be late.  The device answers every request  *)
(* it has received, in order, but a reply may reach the client only after  *)
(* the call that asked for it has given up (total read timeout).           *)
(*                                                                         *)
(* As implemented (client.go / serialclient.go, MatchReply = FALSE): a     *)
(* call takes the next complete frame on the connection for its reply -    *)
(* nothing relates the frame to the request (no transaction id, unit or    *)
(* function comparison), and the network client does not discard what a    *)
(* timed-out call left behind.  TLC produces the schedule in which the     *)
(* reply to call 1 is returned by call 2 (OwnReplyOnly fails); with        *)
(* MatchReply = TRUE (stale frames are dropped) the property holds.        *)
(* Every complete schedule is emitted (Emit) and replayed on the real      *)
(* client; Trace_ClientSession demands that the real client does exactly   *)
(* what this model does with MatchReply = FALSE, and reports each          *)
(* hand-over of a foreign reply as the recorded observation E03-F1.        *)
(***************************************************************************)
EXTENDS Integers, Sequences, FiniteSets, TLC, Json
CONSTANTS NCalls, MatchReply, Emit

Calls == 1..NCalls

VARIABLES next, waiting, owed, wire, result, hist
vars == <<next, waiting, owed, wire, result, hist>>
\* next: the next call to be made; waiting: the call in progress (0 = none); owed: replies the device has not
\* delivered yet (in order); wire: delivered and unread replies; result[k]: 0 = not finished, -1 = timed out, j = got reply j

Init == next = 1 /\ waiting = 0 /\ owed = <<>> /\ wire = <<>> /\ result = [k \in Calls |-> 0] /\ hist = <<>>

H(a, k) == hist' = Append(hist, [a |-> a, k |-> k])

\* the caller starts call k: the request is written, the device will answer it
Send ==
    /\ waiting = 0 /\ next <= NCalls
    /\ waiting' = next /\ next' = next + 1
    /\ owed' = Append(owed, next)
    /\ H("send", next)
    /\ UNCHANGED <<wire, result>>

\* the oldest owed reply reaches the client's side of the connection
Deliver ==
    /\ owed # <<>>
    /\ wire' = Append(wire, Head(owed)) /\ owed' = Tail(owed)
    /\ H("deliver", Head(owed))
    /\ UNCHANGED <<next, waiting, result>>

\* the call in progress reads the next complete frame
Read ==
    /\ waiting # 0 /\ wire # <<>>
    /\ IF MatchReply /\ Head(wire) # waiting
       THEN /\ wire' = Tail(wire) /\ UNCHANGED <<waiting, result>>          \* a stale frame is dropped, the call goes on waiting
            /\ H("drop", Head(wire))
       ELSE /\ result' = [result EXCEPT ![waiting] = Head(wire)]
            /\ wire' = Tail(wire) /\ waiting' = 0
            /\ H("return", waiting)
    /\ UNCHANGED <<next, owed>>

\* nothing arrived in time: the call gives up; what it asked for is still owed
Timeout ==
    /\ waiting # 0 /\ wire = <<>>
    /\ result' = [result EXCEPT ![waiting] = -1]
    /\ waiting' = 0
    /\ H("timeout", waiting)
    /\ UNCHANGED <<next, owed, wire>>

Done == next > NCalls /\ waiting = 0
Next == Send \/ Deliver \/ Read \/ Timeout \/ (Done /\ UNCHANGED vars)
Spec == Init /\ [][Next]_vars

\* what a caller expects: a call returns the reply to ITS request, or fails
OwnReplyOnly == \A k \in Calls : result[k] \in {0, -1, k}

ViewNoHist == <<next, waiting, owed, wire, result>>
EmitDone == (Emit /\ Done) => PrintT(<<"CASE", ToJson([op |-> "csession", n |-> NCalls, steps |-> hist, results |-> result])>>)
=============================================================================
