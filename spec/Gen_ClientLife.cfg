SPECIFICATION Spec
CONSTANTS MaxOps = 5 Emit = TRUE
INVARIANT EmitDone
CHECK_DEADLOCK FALSE
