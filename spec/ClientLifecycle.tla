--------------------------- MODULE ClientLifecycle ---------------------------
(***************************************************************************)
(* Beyond the listed properties: the connection lifecycle of the network   *)
(* client (client.go: Connect / Close / Do) as a sequential state machine. *)
(* The state is what the code keeps: which dialed connection is current    *)
(* (c.conn) - plus what the environment knows: whether each dialed         *)
(* connection has been closed.  `Step' is the single source of truth: the  *)
(* model checker explores it, the generator prints every operation         *)
(* sequence up to MaxOps, and the trace monitor (Trace_ClientLife) demands *)
(* that every logged operation of the real client has exactly the result   *)
(* and touches exactly the connections Step says.                          *)
(*                                                                         *)
(* As implemented (modelled, not idealised):                               *)
(*  - Connect on a connected client replaces the connection WITHOUT        *)
(*    closing the old one (it stays open, unreferenced)  -> NoLeak fails,  *)
(*    recorded in DESIGN.md as an observation;                             *)
(*  - a failed dial leaves the previous connection current;                *)
(*  - Close keeps the closed connection current: a later request fails     *)
(*    with a transport error (before anything is written), not with "not   *)
(*    connected"; a second Close reports the transport's error.            *)
(***************************************************************************)
EXTENDS Integers, Sequences, FiniteSets, TLC, Json
CONSTANTS MaxOps, Emit

Ops == {"connect", "connectfail", "close", "do", "donil"}

VARIABLES cur, closed, ndial, lastIO, lastRes, hist
vars == <<cur, closed, ndial, lastIO, lastRes, hist>>
\* cur: 0 = c.conn is nil, k = the k-th successfully dialed connection; closed: set of connections closed so far

IO(a, k) == [a |-> a, k |-> k]

\* result and transport operations of one call in state (cur, closed, ndial); returns [res, io, cur, closed, ndial]
Step(op, s) ==
    CASE op = "connect" ->
            [res |-> "nil", io |-> <<>>, cur |-> s.ndial + 1, closed |-> s.closed, ndial |-> s.ndial + 1]
      [] op = "connectfail" ->
            [res |-> "dialerr", io |-> <<>>, cur |-> s.cur, closed |-> s.closed, ndial |-> s.ndial]
      [] op = "close" ->
            IF s.cur = 0 THEN [res |-> "nil", io |-> <<>>, cur |-> 0, closed |-> s.closed, ndial |-> s.ndial]
            ELSE [res |-> IF s.cur \in s.closed THEN "transporterr" ELSE "nil", io |-> <<IO("close", s.cur)>>,
                  cur |-> s.cur, closed |-> s.closed \cup {s.cur}, ndial |-> s.ndial]
      [] op = "donil" ->
            [res |-> "nilreq", io |-> <<>>, cur |-> s.cur, closed |-> s.closed, ndial |-> s.ndial]
      [] op = "do" ->
            IF s.cur = 0 THEN [res |-> "notconnected", io |-> <<>>, cur |-> 0, closed |-> s.closed, ndial |-> s.ndial]
            ELSE IF s.cur \in s.closed
                 \* setting the write deadline on the closed connection already fails: nothing is written
                 THEN [res |-> "error", io |-> <<>>, cur |-> s.cur, closed |-> s.closed, ndial |-> s.ndial]
                 ELSE [res |-> "ok", io |-> <<IO("write", s.cur), IO("read", s.cur)>>, cur |-> s.cur, closed |-> s.closed, ndial |-> s.ndial]

State == [cur |-> cur, closed |-> closed, ndial |-> ndial]

Init == cur = 0 /\ closed = {} /\ ndial = 0 /\ lastIO = <<>> /\ lastRes = "none" /\ hist = <<>>

Do(op) ==
    /\ Len(hist) < MaxOps
    /\ LET r == Step(op, State) IN
       /\ cur' = r.cur /\ closed' = r.closed /\ ndial' = r.ndial /\ lastIO' = r.io /\ lastRes' = r.res
    /\ hist' = Append(hist, op)

Next == (\E op \in Ops : Do(op)) \/ (Len(hist) = MaxOps /\ UNCHANGED vars)
Spec == Init /\ [][Next]_vars

----------------------------------------------------------------------------
\* what a user of the client relies on
OnlyCurrentTouched == \A i \in DOMAIN lastIO : lastIO[i].k = cur /\ cur # 0
NoIOWithoutConnection == (cur = 0) => lastIO = <<>>
OkOnlyOnOpenConnection == (lastRes = "ok") => (cur # 0 /\ cur \notin closed)
ReplacedConnectionsNeverUsed == \A i \in DOMAIN lastIO : lastIO[i].k = ndial \/ lastIO[i].k = cur
\* NOT satisfied by the code as it is (Connect does not close the connection it replaces): non-vacuity configuration
NoLeak == \A k \in 1..ndial : (k # cur) => k \in closed

EmitDone == (Emit /\ Len(hist) >= 1) => PrintT(<<"CASE", ToJson([op |-> "clife", steps |-> hist])>>)
=============================================================================
